const semver = require('/usr/lib/node_modules/npm/node_modules/semver');
const rl = require('readline').createInterface({input: process.stdin, terminal: false});
const out = [];
rl.on('line', (line) => {
  const i = line.lastIndexOf('\t');
  const r = line.slice(0, i), v = line.slice(i + 1);
  let res;
  try {
    const range = new semver.Range(r, {loose: true});
    const ver = semver.parse(v, {loose: true});
    if (!ver) res = 'V'; else res = (range.test(ver) ? 'T' : 'F') + '\t' + range.range;
  } catch (e) { res = 'E'; }
  out.push(res);
});
rl.on('close', () => { process.stdout.write(out.join('\n') + '\n'); });
