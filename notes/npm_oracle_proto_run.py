import random, sys, subprocess, collections
sys.path.insert(0, '/tmp/proto')
from oracle import *
rnd = random.Random(int(sys.argv[1])); N = int(sys.argv[2]); MODE = sys.argv[3]  # MODE: full | safe
NUMS = [0, 1, 2, 3, 10, 11, MAX-1]
PRES = [['0'], ['1'], ['alpha'], ['beta'], ['rc', '1'], ['alpha', '1'], ['a-b'], ['-'], ['0a'], ['x'], ['00'], ['01']]
GARB = ['foo', '1.y', '>=1.y', '~1.2.3.4', '1.2.3.4', '1.2beta4', '!1', 'latest', '.1', '1..2', 'a.b.c', '^1.2.3.4']
def gen_partial(pool, allow_wild_anywhere):
    k = rnd.choice([1, 2, 3, 3, 3])
    comps = [rnd.choice(pool) for _ in range(k)]
    if rnd.random() < 0.2:
        if allow_wild_anywhere:
            for i in range(k):
                if rnd.random() < 0.4: comps[i] = None
        elif k > 1:
            j = rnd.randint(1, k - 1)
            for i in range(j, k): comps[i] = None
    texts = []
    for c in comps:
        if c is None: texts.append(rnd.choice(['x', 'X', '*']))
        else:
            t = str(c)
            if rnd.random() < 0.08 and not (MODE == 'safe' and c == 0): t = '0' + t
            texts.append(t)
    p = dict(comps=comps, texts=texts, pre=[], pre_texts=[], build=None)
    wild = any(c is None for c in comps)
    if k == 3 and (not wild or allow_wild_anywhere) and rnd.random() < 0.4:
        pt = rnd.choice(PRES)
        p['pre_texts'] = pt; p['pre'] = [mkid(x) for x in pt]
        if pt[0][0].isalpha() and comps[2] is not None and rnd.random() < 0.2: p['hyphenless'] = True
    if k == 3 and (not wild or allow_wild_anywhere) and rnd.random() < 0.12: p['build'] = rnd.choice(['b', '1', 'b.2', '-'])
    if rnd.random() < 0.08: p['v'] = True
    return p
def gen_ast():
    pool = rnd.sample(NUMS, 3)
    full = MODE == 'full'
    ast = []
    for _ in range(rnd.choice([1, 1, 1, 2, 3])):
        r = rnd.random()
        if r < 0.15: ast.append(('hyphen', gen_partial(pool, full), gen_partial(pool, full)))
        elif r < 0.17 and full: ast.append(('simples', []))
        else:
            toks = []
            for _ in range(rnd.choice([1, 1, 2, 2, 3])):
                if rnd.random() < 0.08: toks.append(('garbage', rnd.choice(GARB)))
                else:
                    op = rnd.choice(['', '', '=', '<', '<=', '>', '>=', '~', '~>', '^'])
                    sp = rnd.choice(['', '', '', ' ', '  ']) if op else ''
                    wild_ok = full or op == ''
                    p = gen_partial(pool, full)
                    if not full and op != '' and p['comps'][0] is None: p = gen_partial(pool, False)
                    toks.append(('cmp', op, p, sp))
            ast.append(('simples', toks))
    return ast, pool
def gen_versions(ast, pool):
    vs = []
    for _ in range(6):
        t = tuple(rnd.choice(pool + [0, 1]) + rnd.choice([0, 0, 0, 1]) for _ in range(3))
        pre = rnd.choice([[], [], ['0'], ['alpha'], ['beta'], ['rc', '1'], ['alpha', '0'], ['zz'], ['1']])
        vs.append((t[0], t[1], t[2], tuple(mkid(x) for x in pre), pre))
    return vs
lines = []; cases = []
for _ in range(N):
    ast, pool = gen_ast()
    text = render(ast, rnd)
    sets = desugar(ast)
    for v in gen_versions(ast, pool):
        vt = '%d.%d.%d' % v[:3] + ('-' + '.'.join(v[4]) if v[4] else '')
        lines.append(text + '\t' + vt)
        cases.append((text, vt, sets, v[:4]))
open('/tmp/proto/in.txt', 'w').write('\n'.join(lines) + '\n')
node = subprocess.run(['node', '/tmp/nodebatch.js'], stdin=open('/tmp/proto/in.txt'), capture_output=True, text=True).stdout.split('\n')[:-1]
crate = subprocess.run(['/tmp/scratch/target/release/batch'], stdin=open('/tmp/proto/in.txt'), capture_output=True, text=True).stdout.split('\n')[:-1]
assert len(node) == len(cases) == len(crate)
on = collections.Counter(); oc = collections.Counter(); exn = []; exc = []
for (text, vt, sets, v), n, c in zip(cases, node, crate):
    n0 = n.split('\t')[0]; c0 = c.split('\t')[0]
    o = 'E' if not sets else ('T' if admits(sets, v) else 'F')
    on[(o, n0)] += 1
    if o != n0 and len(exn) < 40: exn.append((text, vt, o, n))
    oc[(o, c0)] += 1
    if o != c0 and not (c0 == 'E' and o == 'F') and c0 != 'V' and len(exc) < 40: exc.append((text, vt, o, c))
print('oracle vs node', dict(on))
for e in exn: print('   ', repr(e[0]), e[1], 'oracle', e[2], 'node', e[3].replace('\t', ' '))
print('oracle vs crate', dict(oc))
for e in exc: print('   ', repr(e[0]), e[1], 'oracle', e[2], 'crate', e[3].replace('\t', ' '))
