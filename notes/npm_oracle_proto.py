# Prototype of the npm range oracle on a structured AST (design-time; to be ported to Rust).
import random, functools
MAX = 900719925474099

# ---------- versions ----------
def mkid(s):
    return ('n', int(s)) if s.isdigit() and int(s) < 2**64 else ('s', s)
def cmp_id(a, b):
    if a[0] != b[0]: return -1 if a[0] == 'n' else 1
    return (a[1] > b[1]) - (a[1] < b[1])
def cmp_pre(a, b):
    if not a and not b: return 0
    if not a: return 1
    if not b: return -1
    for x, y in zip(a, b):
        c = cmp_id(x, y)
        if c: return c
    return (len(a) > len(b)) - (len(a) < len(b))
def vcmp(a, b):  # version = (M,m,p,pre tuple)
    for i in range(3):
        if a[i] != b[i]: return -1 if a[i] < b[i] else 1
    return cmp_pre(a[3], b[3])

# ---------- AST ----------
# partial: dict(comps=[int|None...] 1..3, pre=[ids] , build=str|None, spelled text pieces)
# tok: ('cmp', op, partial) | ('garbage', text)
# alt: ('hyphen', p1, p2) | ('simples', [tok])
def norm(p):
    """npm: after a wildcard everything is wildcard; qualifiers only with 3 numeric comps"""
    c = list(p['comps']) + [None] * (3 - len(p['comps']))
    if c[0] is None: c = [None, None, None]
    elif c[1] is None: c = [c[0], None, None]
    pre = tuple(p['pre']) if c[2] is not None else ()
    return c[0], c[1], c[2], pre

ANY = 'ANY'; NONE = [('<', (0, 0, 0, (('n', 0),)))]
def desugar_tok(op, p):
    M, m, pt, pre = norm(p)
    z = (('n', 0),)
    if op in ('~', '~>'):
        if M is None: return []
        if m is None: return [('>=', (M, 0, 0, ())), ('<', (M + 1, 0, 0, z))]
        if pt is None: return [('>=', (M, m, 0, ())), ('<', (M, m + 1, 0, z))]
        return [('>=', (M, m, pt, pre)), ('<', (M, m + 1, 0, z))]
    if op == '^':
        if M is None: return []
        if m is None: return [('>=', (M, 0, 0, ())), ('<', (M + 1, 0, 0, z))]
        if pt is None:
            if M == 0: return [('>=', (M, m, 0, ())), ('<', (M, m + 1, 0, z))]
            return [('>=', (M, m, 0, ())), ('<', (M + 1, 0, 0, z))]
        lo = ('>=', (M, m, pt, pre))
        if M == 0:
            if m == 0: return [lo, ('<', (0, 0, pt + 1, z))]
            return [lo, ('<', (0, m + 1, 0, z))]
        return [lo, ('<', (M + 1, 0, 0, z))]
    # primitives / bare
    if op == '=': op2 = ''
    else: op2 = op
    anyx = pt is None
    if M is None:
        if op2 in ('>', '<'): return list(NONE)
        return []
    if anyx:
        xm = m is None
        if op2 == '':
            if xm: return [('>=', (M, 0, 0, ())), ('<', (M + 1, 0, 0, z))]
            return [('>=', (M, m, 0, ())), ('<', (M, m + 1, 0, z))]
        mm = 0 if xm else m
        if op2 == '>':
            return [('>=', (M + 1, 0, 0, ()))] if xm else [('>=', (M, mm + 1, 0, ()))]
        if op2 == '<=':
            return [('<', (M + 1, 0, 0, z))] if xm else [('<', (M, mm + 1, 0, z))]
        if op2 == '<': return [('<', (M, mm, 0, z))]
        if op2 == '>=': return [('>=', (M, mm, 0, ()))]
    return [(op2 if op2 else '=', (M, m, pt, pre))]

def desugar_alt(alt):
    """returns list of comparators (AND), or None if the alternative is dropped (no valid comparator).
       [] means ANY."""
    if alt[0] == 'hyphen':
        _, a, b = alt
        out = []
        M, m, p, pre = norm(a)
        if M is None: pass
        elif m is None: out.append(('>=', (M, 0, 0, ())))
        elif p is None: out.append(('>=', (M, m, 0, ())))
        else: out.append(('>=', (M, m, p, pre)))
        z = (('n', 0),)
        M, m, p, pre = norm(b)
        if M is None: pass
        elif m is None: out.append(('<', (M + 1, 0, 0, z)))
        elif p is None: out.append(('<', (M, m + 1, 0, z)))
        else: out.append(('<=', (M, m, p, pre)))
        return out
    toks = alt[1]
    if not toks: return []            # '' == *
    out = []; valid = 0
    for t in toks:
        if t[0] == 'garbage': continue
        valid += 1
        out += desugar_tok(t[1], t[2])
    if valid == 0: return None
    return out

def test_cmp(c, v):
    op, w = c
    r = vcmp(v, w)
    return {'<': r < 0, '<=': r <= 0, '>': r > 0, '>=': r >= 0, '=': r == 0}[op]
def admits_set(cs, v):
    if not all(test_cmp(c, v) for c in cs): return False
    if v[3]:
        return any(c[1][3] and c[1][:3] == v[:3] for c in cs)
    return True
def admits(sets, v):
    return any(admits_set(cs, v) for cs in sets)
def desugar(ast):
    sets = [desugar_alt(a) for a in ast]
    sets = [s for s in sets if s is not None]
    return sets  # empty list => invalid range (no valid comparator)

# ---------- rendering ----------
def render_partial(p):
    s = '.'.join(p['texts'])
    if len(p['comps']) == 3 and p['pre']:
        s += ('' if p.get('hyphenless') else '-') + '.'.join(p['pre_texts'])
    if len(p['comps']) == 3 and p.get('build'):
        s += '+' + p['build']
    if p.get('v'): s = 'v' + s
    return s
def render(ast, rnd):
    alts = []
    for a in ast:
        if a[0] == 'hyphen':
            alts.append(render_partial(a[1]) + ' - ' + render_partial(a[2]))
        else:
            parts = []
            for t in a[1]:
                if t[0] == 'garbage': parts.append(t[1])
                else: parts.append(t[1] + t[3] + render_partial(t[2]))
            alts.append(rnd.choice([' ', ' ', '  ', '\t']).join(parts) if parts else rnd.choice(['', ' ']))
    return rnd.choice(['||', ' || ', ' ||', '|| ']).join(alts)
