#!/bin/bash
# ./run.sh <Cxx> <quick|thorough>      run the check for one property against /repo's working tree
# ./run.sh <Cxx> --replay FILE        re-execute one saved case
# exit 0 = held on everything explored; 1 = violation (VIOLATION line); 2 = inconclusive / infrastructure
set -u
HERE="$(cd "$(dirname "$0")" && pwd)"
export VERIF_DIR="$HERE"
export CARGO_NET_OFFLINE=true
cd "$HERE/harness" || exit 2
LOG="$HERE/work/build.log"
mkdir -p "$HERE/work"
# rebuild the harness (and with it the crate under test, a path dependency on /repo) from the current tree
if ! cargo build --release --offline >"$LOG" 2>&1; then
  echo "harness or /repo does not build; see $LOG" >&2
  tail -n 30 "$LOG" >&2
  exit 2
fi
cd "$HERE" || exit 2
BIN="$HERE/harness/target/release/vcheck"
ID="${1:?property id}"
shift
"$BIN" "$ID" "$@"
rc=$?
if [ $rc -ne 0 ]; then exit $rc; fi
# thorough tier: coverage-guided fuzzing where a target exists for the property
if [ "${1:-quick}" = "thorough" ] && [ -x "$HERE/fuzz/run_fuzz.sh" ]; then
  "$HERE/fuzz/run_fuzz.sh" "$ID"
  exit $?
fi
exit 0
