// node mk_range.js < cases.jsonl > npm_range.jsonl   (design-time only; node-semver 7.6.2 from npm, loose mode)
const semver = require('/usr/lib/node_modules/npm/node_modules/semver');
const lines = require('fs').readFileSync(0, 'utf8').split('\n').filter(Boolean);
const out = [];
for (const l of lines) {
  const c = JSON.parse(l);
  let node;
  try {
    const range = new semver.Range(c.text, {loose: true});
    node = c.probes.map(p => { const v = semver.parse(p, {loose: true}); return v === null ? '?' : (range.test(v) ? 'T' : 'F'); }).join('');
  } catch (e) { node = 'E'; }
  c.node = node;
  out.push(JSON.stringify(c));
}
process.stdout.write(out.join('\n') + '\n');
