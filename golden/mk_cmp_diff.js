// node mk_cmp_diff.js < pairs.tsv > npm_cmp_diff.tsv   (design-time only; node-semver 7.6.2 from npm)
const semver = require('/usr/lib/node_modules/npm/node_modules/semver');
const lines = require('fs').readFileSync(0, 'utf8').split('\n').filter(Boolean);
const out = [];
for (const l of lines) {
  const [a, b] = l.split('\t');
  const va = semver.parse(a), vb = semver.parse(b);
  if (!va || !vb) continue;
  out.push([a, b, va.compare(vb), String(semver.diff(a, b))].join('\t'));
}
process.stdout.write(out.join('\n') + '\n');
