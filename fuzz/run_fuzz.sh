#!/bin/bash
# thorough-tier step: coverage-guided fuzzing (cargo-fuzz / libFuzzer, debug assertions + overflow checks; no
# sanitizer: the crate under test contains no unsafe code and ASan costs 6x throughput) for the
# properties that have a target.  usage: run_fuzz.sh <Cxx>
# exit 0 held; 1 VIOLATION (re-executed through the plain replay path first); 2 inconclusive
set -u
ID="$1"
V="$(cd "$(dirname "$0")/.." && pwd)"
case "$ID" in
  C01) TARGET=range_ast_c01; RUNS=${VERIF_FUZZ_RUNS:-400000} ;;
  C05|C17) TARGET=version_text_c05_c17; RUNS=${VERIF_FUZZ_RUNS:-800000} ;;
  C06) TARGET=ops_c06; RUNS=${VERIF_FUZZ_RUNS:-25000} ;;   # ~15 exec/s per job: every input goes through the whole public surface and compositions
  C07|C08|C09|C10) TARGET=algebra_c07_c15; RUNS=${VERIF_FUZZ_RUNS:-150000}; export VCHECK_FUZZ_PROP=$ID ;;
  C11) TARGET=algebra_c07_c15; RUNS=${VERIF_FUZZ_RUNS:-100000}; export VCHECK_FUZZ_PROP=$ID ;;
  C13) TARGET=algebra_c07_c15; RUNS=${VERIF_FUZZ_RUNS:-40000}; export VCHECK_FUZZ_PROP=$ID ;;
  C15) TARGET=algebra_c07_c15; RUNS=${VERIF_FUZZ_RUNS:-40000}; export VCHECK_FUZZ_PROP=$ID ;;
  *) exit 0 ;;
esac
SEED=${VERIF_SEED:-0}
JOBS=${VERIF_THREADS:-16}
export CARGO_NET_OFFLINE=true
cd $V/harness || exit 2
cp -n $V/harness/Cargo.lock $V/fuzz/Cargo.lock 2>/dev/null
# the replay binary must be built from the same tree as the fuzz target
if ! cargo build --release --offline >$V/work/build.log 2>&1; then echo "harness does not build; see $V/work/build.log" >&2; exit 2; fi
if ! cargo +nightly fuzz build --fuzz-dir $V/fuzz -s none $TARGET >$V/work/fuzz-build.log 2>&1; then
  echo "fuzz target $TARGET does not build; see $V/work/fuzz-build.log" >&2; tail -5 $V/work/fuzz-build.log >&2; exit 2
fi
BIN=$V/fuzz/target/x86_64-unknown-linux-gnu/release/$TARGET
W=$V/work/fuzz/$ID-$TARGET
rm -rf "$W"; mkdir -p "$W/corpus" "$W/artifacts" "$W/logs"
# two starting points: half of the jobs start from the committed seeds, half from an empty corpus
mkdir -p "$W/corpus-empty"
cp $V/fuzz/seeds/$TARGET/* "$W/corpus/" 2>/dev/null
pids=()
for k in $(seq 0 $((JOBS-1))); do
  s=$((SEED*64 + k + 1))
  if [ $((k % 2)) -eq 0 ]; then C="$W/corpus"; else C="$W/corpus-empty"; fi
  "$BIN" -runs=$RUNS -seed=$s -len_control=0 -max_len=1024 -reload=1 -print_final_stats=1 -timeout=120 \
      -dict=$V/fuzz/dict.txt -artifact_prefix="$W/artifacts/" "$C" >"$W/logs/job$k.log" 2>&1 &
  pids+=($!)
done
fail=0
for p in "${pids[@]}"; do wait $p || fail=1; done
execs=$(grep -h "stat::number_of_executed_units" "$W"/logs/*.log | awk '{s+=$2} END {print s+0}')
cov=$(grep -h "cov:" "$W"/logs/*.log | sed -E 's/.*cov: ([0-9]+).*/\1/' | sort -n | tail -1)
corp=$(ls "$W/corpus" "$W/corpus-empty" | wc -l)
BINV=$V/harness/target/release/vcheck
rc=0
arts=$(ls "$W/artifacts" 2>/dev/null | grep -E "^(crash|timeout|oom)-" | head -20)
for a in $arts; do
  case "$a" in
    timeout-*) # libFuzzer's limit is wall-clock: under load a one-second unit can exceed it.  Re-execute the unit alone;
               # only if it does not finish within 5 minutes either is the run inconclusive (a hang is C06's hang watch's business)
               if VERIF_DIR=$V timeout 300 "$BINV" fuzz-replay $ID $TARGET "$W/artifacts/$a" >/dev/null 2>&1; [ $? -eq 124 ]; then
                 echo "[$ID] fuzz: $a does not finish within 300 s when re-executed alone -> inconclusive" >&2; [ $rc -eq 0 ] && rc=2
               else echo "[$ID] fuzz: $a was slow under load, finishes when re-executed alone (ignored)" >&2; fi ;;
    oom-*) echo "[$ID] fuzz: $a (memory) -> inconclusive" >&2; [ $rc -eq 0 ] && rc=2 ;;
    crash-*) VERIF_DIR=$V "$BINV" fuzz-replay $ID $TARGET "$W/artifacts/$a"; r=$?; if [ $r -eq 1 ]; then rc=1; elif [ $r -ne 0 ] && [ $rc -eq 0 ]; then rc=2; fi ;;
  esac
done
VERIF_DIR=$V "$BINV" fuzz-evidence $ID $TARGET "${execs:-0}" "${corp:-0}" "${cov:-0}" "$JOBS" "$RUNS" >/dev/null
echo "[$ID] fuzz target=$TARGET jobs=$JOBS runs_per_job=$RUNS executed=$execs corpus_files=$corp coverage_edges=$cov artifacts=$(echo $arts | wc -w) rc=$rc"
# a job that stopped on a timeout artifact exits non-zero as well; that is accounted for above
if [ $rc -eq 0 ] && [ $fail -ne 0 ] && [ -z "$arts" ]; then echo "[$ID] a fuzz job exited non-zero without artifact" >&2; rc=2; fi
exit $rc
