#![no_main]
// C06: bytes -> pool of up to 4 strings -> the whole public surface; the semantic oracle (no panic /
// overflow / debug assertion anywhere) is inside the target.
use libfuzzer_sys::fuzz_target;
use vcheck::engine::Stats;

fuzz_target!(|data: &[u8]| {
    let pool = vcheck::fuzzdec::decode_pool(data);
    let mut st = Stats::default();
    st.frozen = true;
    if let Err(f) = vcheck::props::c06::check_pool(&pool, &mut st) {
        panic!("C06 violation: {} / {}", f.check, f.message);
    }
});
