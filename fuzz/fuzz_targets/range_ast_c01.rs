#![no_main]
// C01: bytes -> (arbitrary::Unstructured) range AST + probe versions -> npm oracle comparison.
use libfuzzer_sys::fuzz_target;
use vcheck::engine::Stats;

fuzz_target!(|data: &[u8]| {
    if let Some(case) = vcheck::fuzzdec::decode_ast_case(data) {
        let mut st = Stats::default();
        st.frozen = true;
        if let Err(f) = vcheck::props::c01::check_case(&case, &mut st) {
            if !f.message.starts_with(vcheck::engine::INCONCLUSIVE) {
                panic!("C01 violation: {} / {}", f.check, f.message);
            }
        }
    }
});
