#![no_main]
// C07 C08 C09 C10 C11 C13 C15: bytes -> three expression trees over one small version pool -> the
// relations of the property named by VCHECK_FUZZ_PROP (all seven when unset), interval-model oracle.
use libfuzzer_sys::fuzz_target;
use std::sync::OnceLock;
use vcheck::engine::Stats;

static ONLY: OnceLock<Option<String>> = OnceLock::new();

fuzz_target!(|data: &[u8]| {
    let only = ONLY.get_or_init(|| std::env::var("VCHECK_FUZZ_PROP").ok().filter(|s| !s.is_empty()));
    if let Some(case) = vcheck::fuzzdec::decode_alg_case(data) {
        let mut st = Stats::default();
        st.frozen = true;
        for (prop, _, r) in vcheck::fuzzdec::check_alg(&case, only.as_deref(), &mut st) {
            if let Err(f) = r {
                if !f.message.starts_with(vcheck::engine::INCONCLUSIVE) {
                    panic!("{} violation: {} / {}", prop, f.check, f.message);
                }
            }
        }
    }
});
