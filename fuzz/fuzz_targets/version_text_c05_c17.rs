#![no_main]
// C05 + C17: bytes -> string -> three-class recogniser and error-validity predicates.
use libfuzzer_sys::fuzz_target;
use vcheck::engine::Stats;

fuzz_target!(|data: &[u8]| {
    let s = vcheck::fuzzdec::decode_text(data);
    let mut st = Stats::default();
    st.frozen = true;
    if let Err(f) = vcheck::props::c05::check_string(&s, &mut st) {
        panic!("C05 violation: {} / {}", f.check, f.message);
    }
    if let Err(f) = vcheck::props::c17::check_string(&s, &mut st) {
        panic!("C17 violation: {} / {}", f.check, f.message);
    }
});
