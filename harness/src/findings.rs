//! known_findings.json: committed, read-only at run time.
use serde::Deserialize;
use std::sync::OnceLock;

#[derive(Deserialize, Debug, Clone)]
pub struct Finding {
    pub id: String,
    pub property: String,
    pub status: String, // "open" | "fixed"
    #[serde(default)]
    pub signature: String,
    #[serde(default)]
    pub witness: String,
    #[serde(default)]
    pub commit: Option<String>,
    #[serde(default)]
    pub what: String,
}

#[derive(Deserialize, Debug, Clone, Default)]
pub struct FindingsFile {
    pub findings: Vec<Finding>,
}

static FILE: OnceLock<FindingsFile> = OnceLock::new();

pub fn verif_dir() -> String {
    std::env::var("VERIF_DIR").unwrap_or_else(|_| "/verif".to_string())
}

pub fn load() -> &'static FindingsFile {
    FILE.get_or_init(|| {
        let p = format!("{}/known_findings.json", verif_dir());
        match std::fs::read_to_string(&p) {
            Ok(s) => serde_json::from_str(&s).unwrap_or_else(|e| {
                eprintln!("cannot parse {}: {}", p, e);
                std::process::exit(2)
            }),
            Err(_) => FindingsFile::default(),
        }
    })
}

/// Is the finding with this id listed as open?
pub fn is_open(id: &str) -> bool {
    load().findings.iter().any(|f| f.id == id && f.status == "open")
}

pub fn get(id: &str) -> Option<&'static Finding> {
    load().findings.iter().find(|f| f.id == id)
}

pub fn open_for(property: &str) -> Vec<&'static Finding> {
    load().findings.iter().filter(|f| f.property == property && f.status == "open").collect()
}
