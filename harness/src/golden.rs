//! Golden answers of node-semver 7.6.2 (produced at design time, see golden/README): used only to
//! validate the oracles.  A mismatch means "oracle broken" (exit 2), never a violation.
use crate::engine::Stats;
use crate::findings::verif_dir;
use crate::model::version::*;
use std::cmp::Ordering;

fn load(name: &str) -> Result<String, String> {
    let p = format!("{}/golden/{}", verif_dir(), name);
    std::fs::read_to_string(&p).map_err(|e| format!("golden file {} unreadable: {}", p, e))
}

/// lines: a \t b \t cmp(-1|0|1) \t diff(or "null")
pub fn check_cmp_diff(which: &str, st: &mut Stats) -> Result<u64, String> {
    let s = load("npm_cmp_diff.tsv")?;
    let mut n = 0;
    for line in s.lines() {
        let f: Vec<&str> = line.split('\t').collect();
        if f.len() != 4 {
            return Err(format!("bad golden line {:?}", line));
        }
        let (a, b) = (parse_canonical(f[0]).ok_or("bad a")?, parse_canonical(f[1]).ok_or("bad b")?);
        if which == "cmp" {
            let c = match cmp_semver(&a, &b) {
                Ordering::Less => "-1",
                Ordering::Equal => "0",
                Ordering::Greater => "1",
            };
            if c != f[2] {
                return Err(format!("oracle self-test: cmp_semver({}, {}) = {} but node-semver says {}", f[0], f[1], c, f[2]));
            }
        } else {
            let d = diff_model(&a, &b).unwrap_or("null");
            if d != f[3] {
                return Err(format!("oracle self-test: diff_model({}, {}) = {} but node-semver says {}", f[0], f[1], d, f[3]));
            }
        }
        n += 1;
    }
    if n == 0 {
        return Err("golden file npm_cmp_diff.tsv is empty".into());
    }
    st.notes.push(format!("oracle self-test: {} golden node-semver {} answers reproduced", n, which));
    Ok(n)
}

pub fn check_diff_golden(st: &mut Stats) -> Result<u64, String> {
    check_cmp_diff("diff", st)
}
pub fn check_cmp_golden(st: &mut Stats) -> Result<u64, String> {
    check_cmp_diff("cmp", st)
}

// ---------------------------------------------------------------------------------------------
// range goldens: JSON lines {"ast":..., "text":..., "probes":[...], "node":"TF.."|"E"}
use crate::gen::range_ast::{Alt, Comp, Op, RangeAst, Tok};
use crate::model::npm;

#[derive(serde::Deserialize)]
struct RangeGolden {
    ast: RangeAst,
    text: String,
    probes: Vec<String>,
    node: String,
}

/// masks where node-semver itself deviates from its documentation (DESIGN 3.4)
pub fn golden_case_masked(ast: &RangeAst) -> Option<&'static str> {
    for a in &ast.alts {
        if let Alt::Simples { toks, .. } = a {
            let has_garbage = toks.iter().any(|t| t.is_garbage());
            // any token that desugars to the empty comparator ('' = any): node joins and re-splits the
            // comparator strings on blanks, which makes that token vanish
            let has_bare_wild = toks.iter().any(|t| matches!(t, Tok::Cmp { op, p, .. } if p.comps[0].is_wild() && *op != Op::Gt && *op != Op::Lt));
            if has_garbage && has_bare_wild {
                return Some("(e) wildcard token next to garbage tokens");
            }
        }
        for (p, op) in a.partials() {
            // (a) caret with a zero major spelled with leading zeros
            if op == Some(Op::Caret) {
                if let Some(Comp::Num { val: 0, zeros }) = p.comps.first() {
                    if *zeros > 0 {
                        return Some("(a) caret zero major spelled 00");
                    }
                }
            }
        }
    }
    None
}

fn star_like(set: &npm::CmpSet) -> bool {
    set.iter().all(|c| c.op == npm::COp::Ge && c.v.tuple() == (0, 0, 0) && !c.v.is_pre())
}

pub fn check_range_golden(st: &mut Stats) -> Result<u64, String> {
    let s = load("npm_range.jsonl")?;
    let mut n = 0u64;
    let mut masked = 0u64;
    for line in s.lines() {
        if line.trim().is_empty() {
            continue;
        }
        let g: RangeGolden = serde_json::from_str(line).map_err(|e| format!("bad golden line: {}", e))?;
        if g.ast.render() != g.text {
            return Err(format!("golden text {:?} is not the rendering of its AST ({:?})", g.text, g.ast.render()));
        }
        if golden_case_masked(&g.ast).is_some() {
            masked += 1;
            continue;
        }
        let sets = npm::desugar(&g.ast);
        if g.node == "E" {
            if !sets.is_empty() {
                return Err(format!("oracle self-test: node rejects {:?} but the oracle reads it as {:?}", g.text, npm::sets_text(&sets)));
            }
            n += 1;
            continue;
        }
        if sets.is_empty() {
            return Err(format!("oracle self-test: node accepts {:?} but the oracle finds no comparator", g.text));
        }
        let any_star = sets.iter().any(star_like);
        let ans: Vec<char> = g.node.chars().collect();
        if ans.len() != g.probes.len() {
            return Err(format!("golden line for {:?}: {} answers for {} probes", g.text, ans.len(), g.probes.len()));
        }
        for (p, a) in g.probes.iter().zip(ans.iter()) {
            let v = parse_canonical(p).ok_or_else(|| format!("bad probe {:?}", p))?;
            if npm::dont_care(&sets, &v) || (any_star && v.is_pre()) {
                masked += 1;
                continue;
            }
            let exp = if npm::admits(&sets, &v) { 'T' } else { 'F' };
            if exp != *a {
                return Err(format!(
                    "oracle self-test: range {:?} version {}: oracle ({:?}) says {} but node-semver says {}",
                    g.text,
                    p,
                    npm::sets_text(&sets),
                    exp,
                    a
                ));
            }
            n += 1;
        }
    }
    if n == 0 {
        return Err("golden file npm_range.jsonl is empty".into());
    }
    st.notes.push(format!("oracle self-test: {} golden node-semver range answers reproduced ({} masked as documented node deviations)", n, masked));
    Ok(n)
}
