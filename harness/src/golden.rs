//! Golden answers of node-semver 7.6.2 (produced at design time, see golden/README): used only to
//! validate the oracles.  A mismatch means "oracle broken" (exit 2), never a violation.
use crate::engine::Stats;
use crate::findings::verif_dir;
use crate::model::version::*;
use std::cmp::Ordering;

fn load(name: &str) -> Result<String, String> {
    let p = format!("{}/golden/{}", verif_dir(), name);
    std::fs::read_to_string(&p).map_err(|e| format!("golden file {} unreadable: {}", p, e))
}

/// lines: a \t b \t cmp(-1|0|1) \t diff(or "null")
pub fn check_cmp_diff(which: &str, st: &mut Stats) -> Result<u64, String> {
    let s = load("npm_cmp_diff.tsv")?;
    let mut n = 0;
    for line in s.lines() {
        let f: Vec<&str> = line.split('\t').collect();
        if f.len() != 4 {
            return Err(format!("bad golden line {:?}", line));
        }
        let (a, b) = (parse_canonical(f[0]).ok_or("bad a")?, parse_canonical(f[1]).ok_or("bad b")?);
        if which == "cmp" {
            let c = match cmp_semver(&a, &b) {
                Ordering::Less => "-1",
                Ordering::Equal => "0",
                Ordering::Greater => "1",
            };
            if c != f[2] {
                return Err(format!("oracle self-test: cmp_semver({}, {}) = {} but node-semver says {}", f[0], f[1], c, f[2]));
            }
        } else {
            let d = diff_model(&a, &b).unwrap_or("null");
            if d != f[3] {
                return Err(format!("oracle self-test: diff_model({}, {}) = {} but node-semver says {}", f[0], f[1], d, f[3]));
            }
        }
        n += 1;
    }
    if n == 0 {
        return Err("golden file npm_cmp_diff.tsv is empty".into());
    }
    st.notes.push(format!("oracle self-test: {} golden node-semver {} answers reproduced", n, which));
    Ok(n)
}

pub fn check_diff_golden(st: &mut Stats) -> Result<u64, String> {
    check_cmp_diff("diff", st)
}
pub fn check_cmp_golden(st: &mut Stats) -> Result<u64, String> {
    check_cmp_diff("cmp", st)
}
