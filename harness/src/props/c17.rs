//! C17 - parse errors report the original input, an in-range offset and the right kind.
use crate::engine::*;
use crate::gen::strings as gs;
use crate::model::version::*;
use miette::Diagnostic;
use nodejs_semver::{Range, SemverError, SemverErrorKind, Version};
use proptest::prelude::*;
use proptest::sample::select;
use serde_json::{json, Value};

pub const ID: &str = "C17";

/// (line, column-in-bytes, column-in-chars) of byte offset `off` in `s`, 0-based.
fn line_col(s: &str, off: usize) -> (usize, usize, usize) {
    let before = &s[..off];
    let line = before.bytes().filter(|b| *b == b'\n').count();
    let start = before.rfind('\n').map(|p| p + 1).unwrap_or(0);
    (line, off - start, s[start..off].chars().count())
}

#[derive(Debug, PartialEq)]
enum ExpKind {
    MaxLength,
    MaxInt(u64, usize),
    ParseInt(usize),
    Unspecified,
}

/// Which kind does the statement prescribe for Version::parse(s)?
fn expected_version_kind(s: &str) -> ExpKind {
    if s.len() > max_len() {
        return ExpKind::MaxLength;
    }
    // optional v/V, blanks, then up to three dot-separated digit runs
    let b = s.as_bytes();
    let mut i = 0;
    if i < b.len() && (b[i] == b'v' || b[i] == b'V') {
        i += 1;
    }
    while i < b.len() && (b[i] == b' ' || b[i] == b'\t') {
        i += 1;
    }
    for k in 0..3 {
        let st = i;
        while i < b.len() && b[i].is_ascii_digit() {
            i += 1;
        }
        if i == st {
            return ExpKind::Unspecified;
        }
        match s[st..i].parse::<u64>() {
            Err(_) => return ExpKind::ParseInt(st),
            Ok(n) if n > max_int() => return ExpKind::MaxInt(n, st),
            Ok(_) => {}
        }
        if k < 2 {
            if i < b.len() && b[i] == b'.' {
                i += 1;
            } else {
                return ExpKind::Unspecified;
            }
        }
    }
    ExpKind::Unspecified
}

pub fn check_error(what: &str, s: &str, e: &SemverError, st: &mut Stats) -> Result<(), Failure> {
    let shown = || format!("{}({:?})", what, s);
    st.eval(1);
    let input = guard(|| e.input().to_string()).map_err(|p| Failure::new("accessor-panics", format!("{}: input() panicked: {}", shown(), p)))?;
    if input != s {
        return Err(Failure::new("input-not-original", format!("{}: error.input() = {:?}, not the string that was passed in", shown(), input)));
    }
    let off = e.offset();
    if off > s.len() || !s.is_char_boundary(off) {
        return Err(Failure::new("offset-out-of-range", format!("{}: offset() = {} is not a character boundary inside the {}-byte input", shown(), off, s.len())));
    }
    if e.span().offset() != off {
        return Err(Failure::new("span-offset-mismatch", format!("{}: span().offset() = {} but offset() = {}", shown(), e.span().offset(), off)));
    }
    if e.span().offset() + e.span().len() > s.len() {
        return Err(Failure::new("span-out-of-range", format!("{}: span {:?} exceeds the input", shown(), e.span())));
    }
    let loc = guard(|| e.location()).map_err(|p| Failure::new("location-panics", format!("{}: location() panicked: {}", shown(), p)))?;
    let (line, colb, colc) = line_col(s, off);
    if loc.0 != line || (loc.1 != colb && loc.1 != colc) {
        return Err(Failure::new(
            "location-wrong",
            format!("{}: location() = {:?} but offset {} is line {}, column {} (bytes) / {} (chars)", shown(), loc, off, line, colb, colc),
        ));
    }
    // diagnostics render
    let r = guard(|| {
        let code = e.code().map(|c| c.to_string());
        let _ = e.help().map(|c| c.to_string());
        let _ = e.url().map(|c| c.to_string());
        let _ = e.severity();
        let labels: Vec<miette::LabeledSpan> = e.labels().map(|l| l.collect()).unwrap_or_default();
        let mut read_ok = true;
        let mut span_ok = labels.len() == 1;
        for l in &labels {
            if l.inner() != e.span() {
                span_ok = false;
            }
            match e.source_code() {
                Some(sc) => {
                    if sc.read_span(l.inner(), 1, 1).is_err() {
                        read_ok = false;
                    }
                }
                None => read_ok = false,
            }
        }
        let mut out = String::new();
        let narr = miette::NarratableReportHandler::new().render_report(&mut out, e).is_ok();
        let mut js = String::new();
        let jsr = miette::JSONReportHandler::new().render_report(&mut js, e).is_ok();
        let dbg = format!("{:?} {:?} {:#?}", miette::Report::new(e.clone()), e, e);
        let disp = e.to_string();
        let src = std::error::Error::source(e).map(|s| s.to_string());
        (code, span_ok, read_ok, narr && jsr && !dbg.is_empty() && !disp.is_empty(), src)
    })
    .map_err(|p| Failure::new("diagnostic-panics", format!("{}: rendering the diagnostic panicked: {}", shown(), p)))?;
    if r.0.is_none() {
        return Err(Failure::new("diagnostic-no-code", format!("{}: code() is None", shown())));
    }
    if !r.1 {
        return Err(Failure::new("diagnostic-label-span", format!("{}: labels() is not exactly one label with the error span", shown())));
    }
    if !r.2 {
        return Err(Failure::new("diagnostic-source-unreadable", format!("{}: source_code().read_span(label) failed", shown())));
    }
    if !r.3 {
        return Err(Failure::new("diagnostic-render-failed", format!("{}: a report handler failed to render", shown())));
    }
    st.eval(4);
    if off > 0 || s[..off].contains('\n') || !s.is_ascii() || s.contains('\n') {
        st.nontrivial(&(what, s), || json!({"call": what, "input": s, "offset": off, "kind": format!("{:?}", e.kind())}));
    }
    Ok(())
}

pub fn check_string(s: &String, st: &mut Stats) -> Result<(), Failure> {
    // Version::parse
    match guard(|| Version::parse(s)) {
        Ok(Err(e)) => {
            st.class("version-error");
            check_error("Version::parse", s, &e, st)?;
            let exp = expected_version_kind(s);
            let kind = e.kind();
            match &exp {
                ExpKind::MaxLength => {
                    st.class("kind:MaxLengthError");
                    if !matches!(kind, SemverErrorKind::MaxLengthError) {
                        return Err(Failure::new("kind-wrong", format!("Version::parse of a {}-byte string reports {:?}, expected MaxLengthError", s.len(), kind)));
                    }
                }
                ExpKind::MaxInt(n, pos) => {
                    st.class("kind:MaxIntError");
                    if !matches!(kind, SemverErrorKind::MaxIntError(m) if m == n) {
                        return Err(Failure::new("kind-wrong", format!("Version::parse({:?}) reports {:?}, expected MaxIntError({})", s, kind, n)));
                    }
                    if e.offset() != *pos {
                        return Err(Failure::new(
                            "maxint-offset-wrong",
                            format!("Version::parse({:?}): MaxIntError offset() = {} but the component starts at {}", s, e.offset(), pos),
                        ));
                    }
                }
                ExpKind::ParseInt(_pos) => {
                    st.class("kind:ParseIntError");
                    if !matches!(kind, SemverErrorKind::ParseIntError(_)) {
                        return Err(Failure::new("kind-wrong", format!("Version::parse({:?}) reports {:?}, expected ParseIntError", s, kind)));
                    }
                }
                ExpKind::Unspecified => st.class("kind:unspecified"),
            }
        }
        Ok(Ok(v)) => {
            st.class("version-ok");
            if s.len() > max_len() {
                return Err(Failure::new("over-long-accepted", format!("Version::parse of a {}-byte string returned Ok({}) instead of MaxLengthError", s.len(), v)));
            }
        }
        Err(_) => st.class("version-parse-panicked(C06)"),
    }
    // Range::parse
    match guard(|| Range::parse(s)) {
        Ok(Err(e)) => {
            st.class("range-error");
            check_error("Range::parse", s, &e, st)?;
            if is_garbage_only(s) {
                st.class("kind:NoValidRanges");
                if !matches!(e.kind(), SemverErrorKind::NoValidRanges) {
                    return Err(Failure::new("kind-wrong", format!("Range::parse({:?}) has no valid comparator but reports {:?}, expected NoValidRanges", s, e.kind())));
                }
            }
        }
        Ok(Ok(_)) => st.class("range-ok"),
        Err(_) => st.class("range-parse-panicked(C06)"),
    }
    Ok(())
}

/// conservative recogniser of "no valid comparator at all": every blank/||-separated token starts
/// with something that cannot begin a comparator, or is one of the listed malformed tokens.
pub fn is_garbage_only(s: &str) -> bool {
    if s.contains('\n') || s.contains('\r') {
        return false;
    }
    let toks: Vec<&str> = s.split(|c| c == ' ' || c == '\t').flat_map(|t| t.split("||")).filter(|t| !t.is_empty()).collect();
    if toks.is_empty() {
        return false; // '' is `*` for npm; the statement lets the crate fail, kind unspecified
    }
    toks.iter().all(|t| {
        let c = t.chars().next().unwrap();
        let known = ["foo", "1.y", ">=1.y", "1.2.3.4", "~1.2.3.4", "1.2beta4", "!1", "latest", ".1", "1..2", "bar", "zz"];
        known.contains(t) || !(c.is_ascii_digit() || "xX*<>=~^vV-|".contains(c)) || has_out_of_range_component(t)
    })
}

/// operator(s) + dotted digit runs where one of the first three components exceeds MAX_SAFE_INTEGER
/// (or u64): such a token is not a valid comparator
fn has_out_of_range_component(t: &str) -> bool {
    let body = t.trim_start_matches(|c| "<>=~^v".contains(c));
    let mut n = 0;
    for part in body.split('.') {
        if n >= 3 {
            break;
        }
        n += 1;
        if part.is_empty() || !part.bytes().all(|b| b.is_ascii_digit()) {
            // x-range components are fine; anything else: stop looking (the qualifier may start here)
            if part == "x" || part == "X" || part == "*" {
                continue;
            }
            return false;
        }
        match part.parse::<u64>() {
            Ok(v) if v <= max_int() => {}
            _ => return true,
        }
    }
    false
}

pub fn garbage_text() -> BoxedStrategy<String> {
    let toks = vec!["foo", "1.y", ">=1.y", "1.2.3.4", "~1.2.3.4", "1.2beta4", "!1", "latest", ".1", "1..2", "é", "💥x", "a\u{161}", "_", "#1.2.3"];
    let seps = vec![" ", "  ", "\t", " || ", "||", " ||"];
    (proptest::collection::vec((select(toks), select(seps)), 1..6), select(vec!["", " ", "  "]), select(vec!["", " ", "\t"]))
        .prop_map(|(v, pre, post)| {
            let mut s = pre.to_string();
            for (i, (t, sep)) in v.iter().enumerate() {
                if i > 0 {
                    s.push_str(sep);
                }
                s.push_str(t);
            }
            s.push_str(post);
            s
        })
        .boxed()
}

/// multi-line / multi-byte prefixes in front of failing inputs
pub fn multiline_text() -> BoxedStrategy<String> {
    let pieces = vec!["\n", "\r\n", "é", "💥", " ", "\t", "1.2.3", "1.2", "v", "x", "1.", "-", "+", "a", "\u{161}", "900719925474100", "99999999999999999999", "||", ">="];
    let short = proptest::collection::vec(select(pieces.clone()), 1..10).prop_map(|v| v.concat());
    // over-long multi-line inputs: the only errors whose offset lies behind a newline
    let long = (proptest::collection::vec(select(pieces), 3..12), 20usize..120, select(vec!["", "z", "\n", "é", "💥", "\n\n", " "]))
        .prop_map(|(v, reps, tail)| {
            let unit = v.concat();
            let mut s = String::new();
            while s.len() < 200 + reps {
                s.push_str(&unit);
                s.push_str("1.2.3-abcdefgh");
            }
            s.push_str(tail);
            s
        });
    prop_oneof![3 => short, 1 => long].boxed()
}

pub fn run(cfg: &RunCfg) -> PropRun {
    let mut run = PropRun::default();
    run.rule = "every Err returned by Version::parse and Range::parse over: the C05 domains (exhaustive short strings, all single edits of canonical versions, length/integer limit family, spelled versions with edits, token soup) plus garbage-only range texts, multi-line/multi-byte soups and 9 shapes of very long inputs at 34 lengths up to 3 MB (both sides of 2^9..2^20). Oracle: input()==argument, offset() a char boundary <= len, span/offset agree, location() recomputed from the offset (column in bytes or chars), every miette accessor and two report handlers render, kinds prescribed by the statement (MaxLengthError / MaxIntError(value)@component / ParseIntError / NoValidRanges). Non-trivial = error with offset > 0 or an input containing newlines / non-ASCII; distinct by (call, input).".into();
    run.assumptions = vec![
        "the column unit is not fixed by the statement: bytes or characters both accepted".into(),
        "kinds are asserted only where the statement prescribes one".into(),
        "miette's fancy handler cannot be built offline; narratable, JSON and debug handlers are rendered".into(),
    ];
    crate::props::c05::run_domains(cfg, ID, &mut run, check_string);
    let out = campaign(cfg, ID, "garbage-ranges", cfg.pick(60_000, 1_000_000), garbage_text, check_string);
    run.absorb(out);
    let out = campaign(cfg, ID, "multiline", cfg.pick(100_000, 2_000_000), multiline_text, check_string);
    run.absorb(out);
    let _ = gs::soup_tokens;
    run
}

pub fn replay(campaign: &str, case: &Value) -> Result<(), Failure> {
    let bad = |e: serde_json::Error| Failure::new("bad-replay", e.to_string());
    if campaign == "huge-inputs" {
        let (shape, n): (usize, usize) = serde_json::from_value(case.clone()).map_err(bad)?;
        return check_string(&gs::huge_input(shape, n), &mut Stats::default());
    }
    if campaign == "primed-text" {
        let (prime, s): (String, String) = serde_json::from_value(case.clone()).map_err(bad)?;
        let _ = guard(|| Version::parse(&prime).is_ok());
        let _ = guard(|| Range::parse(&prime).is_ok());
        return check_string(&s, &mut Stats::default());
    }
    let s: String = serde_json::from_value(case.clone()).map_err(bad)?;
    check_string(&s, &mut Stats::default())
}
