//! C09 - allows_any is true exactly when the two ranges overlap.
use crate::engine::*;
use crate::ev;
use crate::gen::ranges::*;
use crate::model::version::*;
use crate::props::alg::*;
use crate::props::c07::{pair_strategy, PairCase};
use nodejs_semver::Range;
use serde_json::{json, Value};

pub const ID: &str = "C09";

pub fn check_pair(c: &PairCase, st: &mut Stats) -> Result<(), Failure> {
    let a = ev!(eval(&c.a), st);
    let b = ev!(eval(&c.b), st);
    let (ra, rb) = match (&a.range, &b.range) {
        (Some(x), Some(y)) => (x, y),
        _ => {
            st.class("operand-empty(discarded)");
            st.discarded += 1;
            return Ok(());
        }
    };
    let ctx = || format!("A = {} = {:?}, B = {} = {:?}", c.a.show(), a.text, c.b.show(), b.text);
    let any_ab = guard(|| ra.allows_any(rb)).map_err(|p| Failure::new("allows-any-panics", format!("{}: {}", ctx(), p)))?;
    let any_ba = guard(|| rb.allows_any(ra)).map_err(|p| Failure::new("allows-any-panics", format!("{}: {}", ctx(), p)))?;
    let inter = guard(|| ra.intersect(rb)).map_err(|p| Failure::new("intersect-panics", format!("{}: {}", ctx(), p)))?;
    st.eval(3);
    let tie = share_bound(&a.model, &b.model);
    st.class(if any_ab { "overlap" } else { "disjoint" });
    if tie {
        st.class("shared-bound-version");
        st.nontrivial(&(a.text.clone(), b.text.clone()), || json!({"A": a.text, "B": b.text, "allows_any": any_ab}));
    }
    if any_ab != any_ba {
        return Err(Failure::new("allows-any-not-symmetric", format!("{}: A.allows_any(B) = {} but B.allows_any(A) = {}", ctx(), any_ab, any_ba)));
    }
    if any_ab != inter.is_some() {
        return Err(Failure::new(
            "allows-any-vs-intersect",
            format!("{}: allows_any = {} but intersect = {:?}", ctx(), any_ab, inter.as_ref().map(|r| r.to_string())),
        ));
    }
    let common = common_point(&a.model, &b.model);
    if !any_ab {
        if let Some(w) = &common {
            return Err(Failure::new("allows-any-false-but-overlap", format!("{}: allows_any = false although {} lies within both", ctx(), w.text())));
        }
    }
    let pv = probes_of(&[&a, &b], &c.extra);
    for v in &pv {
        let cv = v.to_crate();
        st.eval(1);
        let (ia, ib) = (a.model.in_bounds(v), b.model.in_bounds(v));
        if !any_ab && ia && ib {
            return Err(Failure::new("allows-any-false-but-overlap", format!("{}: allows_any = false although {} lies within both", ctx(), v.text())));
        }
        if sat(&a, &cv) && sat(&b, &cv) && !any_ab {
            return Err(Failure::new("allows-any-false-but-both-satisfied", format!("{}: allows_any = false although {} satisfies both", ctx(), v.text())));
        }
    }
    // "ranges that merely touch at an excluded endpoint do not overlap": if no pair of intervals
    // overlaps bound-wise the answer must be false.  (true for an overlap that is bound-wise valid
    // but holds no version, like `>1.0.0 <1.0.1-0`, is not contradicted by the statement.)
    if any_ab && !boundwise_overlap(&a.model, &b.model) {
        return Err(Failure::new("allows-any-true-but-only-touching", format!("{}: allows_any = true but the ranges are separated or merely touch at an excluded endpoint", ctx())));
    }
    // exact-version ranges as probes: A.allows_any("=v") == v within A
    for v in pv.iter().step_by(2) {
        if !v.build.is_empty() {
            continue;
        }
        let t = format!("={}", v.text());
        if let Ok(Ok(p)) = guard(|| Range::parse(&t)) {
            let got = guard(|| ra.allows_any(&p)).map_err(|pp| Failure::new("allows-any-panics", format!("{}: allows_any({}) panicked: {}", ctx(), t, pp)))?;
            let rev = guard(|| p.allows_any(ra)).map_err(|pp| Failure::new("allows-any-panics", format!("{}: ({}).allows_any(A) panicked: {}", ctx(), t, pp)))?;
            st.eval(1);
            let exp = a.model.in_bounds(v);
            if got != exp || rev != exp {
                return Err(Failure::new(
                    "allows-any-exact-version",
                    format!("A = {:?}: {} within A: {} but A.allows_any({}) = {}, ({}).allows_any(A) = {}", a.text, v.text(), exp, t, got, t, rev),
                ));
            }
        }
    }
    Ok(())
}

/// the enumerated cross product of bound kinds x relative positions (DESIGN C09)
pub fn structured_intervals() -> Vec<String> {
    let chain = ["1.0.0-0", "1.0.0-a", "1.0.0-a.0", "1.0.0", "1.0.1-0", "1.0.1"];
    let mut out = vec!["*".to_string()];
    for (i, p) in chain.iter().enumerate() {
        for l in [">=", ">"] {
            out.push(format!("{}{}", l, p));
        }
        for u in ["<=", "<"] {
            out.push(format!("{}{}", u, p));
        }
        out.push(p.to_string());
        for q in &chain[i + 1..] {
            for l in [">=", ">"] {
                for u in ["<=", "<"] {
                    out.push(format!("{}{} {}{}", l, p, u, q));
                }
            }
        }
    }
    out
}

pub fn run(cfg: &RunCfg) -> PropRun {
    let mut run = PropRun::default();
    run.rule = "pairs (A, B) of Range values: (a) enumerated: every ordered pair of the 91 single intervals over the adjacent chain 1.0.0-0 < 1.0.0-a < 1.0.0-a.0 < 1.0.0 < 1.0.1-0 < 1.0.1 with every bound kind (unbounded / inclusive / exclusive) on both sides, plus every pair (two-alternative union, single interval) over a stratified subset; (b) proptest pairs as in C07 (multi-alternative, results of earlier operations). Oracle: allows_any == intersect.is_some() == reversed; false => no probe and no exact model point within both; a probe satisfying both => true; true => an exact common point exists; A.allows_any(=v) == v within A for every other probe. Non-trivial = the two ranges share a bound version; distinct by operand texts.".into();
    run.assumptions = vec!["bounds membership of a Range value is read from its canonical Display".into()];
    let ivs = structured_intervals();
    let n = ivs.len();
    let ir = &ivs;
    let out = enumerate(
        cfg,
        "structured-pairs",
        move |shard, nsh| (0..n).filter(move |i| i % nsh == shard).flat_map(move |i| (0..n).map(move |j| (i, j))),
        move |(i, j), st| {
            let c = PairCase { a: Expr::Leaf(ir[*i].clone()), b: Expr::Leaf(ir[*j].clone()), extra: vec![] };
            check_pair(&c, st)
        },
    );
    run.absorb(out);
    run.stats.exhaustive_subspaces.push(json!({"name": "single intervals over an adjacent 6-version chain, all bound kinds", "intervals": n, "ordered_pairs": n * n}));
    let out = enumerate(
        cfg,
        "structured-unions",
        move |shard, nsh| (0..n).filter(move |i| i % nsh == shard).flat_map(move |i| (0..n).step_by(5).flat_map(move |j| (0..n).step_by(3).map(move |k| (i, j, k)))),
        move |(i, j, k), st| {
            let c = PairCase { a: Expr::Leaf(format!("{} || {}", ir[*i], ir[*j])), b: Expr::Leaf(ir[*k].clone()), extra: vec![] };
            check_pair(&c, st)
        },
    );
    run.absorb(out);
    let out = campaign(cfg, ID, "pairs", cfg.pick(400_000, 4_000_000), || pair_strategy(1, 3), check_pair);
    run.absorb(out);
    run
}

pub fn replay(campaign: &str, case: &Value) -> Result<(), Failure> {
    let bad = |e: serde_json::Error| Failure::new("bad-replay", e.to_string());
    let ivs = structured_intervals();
    let c: PairCase = match campaign {
        "structured-pairs" => {
            let (i, j): (usize, usize) = serde_json::from_value(case.clone()).map_err(bad)?;
            PairCase { a: Expr::Leaf(ivs[i].clone()), b: Expr::Leaf(ivs[j].clone()), extra: vec![] }
        }
        "structured-unions" => {
            let (i, j, k): (usize, usize, usize) = serde_json::from_value(case.clone()).map_err(bad)?;
            PairCase { a: Expr::Leaf(format!("{} || {}", ivs[i], ivs[j])), b: Expr::Leaf(ivs[k].clone()), extra: vec![] }
        }
        _ => serde_json::from_value(case.clone()).map_err(bad)?,
    };
    let _ = MVersion::new(0, 0, 0);
    check_pair(&c, &mut Stats::default())
}
