//! C18 - tuple conversions build the same version as parsing the dotted string.
use crate::engine::*;
use crate::model::version::max_int;
use nodejs_semver::{Identifier, Version};
use proptest::prelude::*;
use proptest::sample::select;
use serde_json::{json, Value};

pub const ID: &str = "C18";

fn fields5(v: &Version) -> (u64, u64, u64, Vec<Identifier>, Vec<Identifier>) {
    (v.major, v.minor, v.patch, v.pre_release.clone(), v.build.clone())
}

/// Compare one conversion result with the expectation derived from the numbers themselves.
fn check_one(ty: &str, got: &Version, a: u64, b: u64, c: u64, d: Option<u64>, deep: bool) -> Result<(), Failure> {
    let exp_pre: Vec<Identifier> = d.map(|d| vec![Identifier::Numeric(d)]).unwrap_or_default();
    let ctx = || format!("{}::from(({}, {}, {}{}))", ty, a, b, c, d.map(|d| format!(", {}", d)).unwrap_or_default());
    if got.major != a || got.minor != b || got.patch != c || got.pre_release != exp_pre || !got.build.is_empty() {
        return Err(Failure::new("tuple-fields-wrong", format!("{} gave fields {:?}", ctx(), fields5(got))));
    }
    if deep {
        let text = match d {
            None => format!("{}.{}.{}", a, b, c),
            Some(d) => format!("{}.{}.{}-{}", a, b, c, d),
        };
        let printed = got.to_string();
        if printed != text {
            return Err(Failure::new("tuple-prints-differently", format!("{} prints {:?}, expected {:?}", ctx(), printed, text)));
        }
        if (a ^ b ^ c) % 4 == 0 {
            if let Err(m) = display_survives_failing_writer(got, &text, &|s| Version::parse(s).map(|w| fields5(&w) == fields5(got)).unwrap_or(false)) {
                return Err(Failure::new("tuple-prints-differently", format!("{}: {}", ctx(), m)));
            }
        }
        match Version::parse(&text) {
            Ok(p) => {
                if fields5(&p) != fields5(got) {
                    return Err(Failure::new(
                        "tuple-differs-from-parse",
                        format!("{} = {:?} but parse({:?}) = {:?}", ctx(), fields5(got), text, fields5(&p)),
                    ));
                }
            }
            Err(e) => return Err(Failure::new("tuple-text-does-not-parse", format!("{}: parse({:?}) failed: {}", ctx(), text, e))),
        }
    }
    Ok(())
}

macro_rules! conv_all {
    ($st:expr, $a:expr, $b:expr, $c:expr, $d:expr, $deep:expr, $($t:ident),+) => {{
        let (a, b, c, d): (u64, u64, u64, u64) = ($a, $b, $c, $d);
        $(
            if let (Ok(x), Ok(y), Ok(z)) = (<$t>::try_from(a), <$t>::try_from(b), <$t>::try_from(c)) {
                let v3 = guard(|| Version::from((x, y, z))).map_err(|p| Failure::new("tuple-conversion-panics", format!("{} ({},{},{}): {}", stringify!($t), a, b, c, p)))?;
                check_one(stringify!($t), &v3, a, b, c, None, $deep)?;
                let w3: Version = (x, y, z).into();
                if fields5(&w3) != fields5(&v3) {
                    return Err(Failure::new("into-differs-from-from", format!("{} ({},{},{})", stringify!($t), a, b, c)));
                }
                $st.eval(1);
                if let Ok(w) = <$t>::try_from(d) {
                    let v4 = guard(|| Version::from((x, y, z, w))).map_err(|p| Failure::new("tuple-conversion-panics", format!("{} ({},{},{},{}): {}", stringify!($t), a, b, c, d, p)))?;
                    check_one(stringify!($t), &v4, a, b, c, Some(d), $deep)?;
                    $st.eval(1);
                }
            }
        )+
    }};
}

pub fn check_values(a: u64, b: u64, c: u64, d: u64, deep: bool, st: &mut Stats) -> Result<(), Failure> {
    conv_all!(st, a, b, c, d, deep, u8, u16, u32, u64, usize, i8, i16, i32, i64, isize);
    let mx = a.max(b).max(c);
    st.class(match mx {
        0..=127 => "max<=127: all ten types",
        128..=255 => "max<=255: all but i8",
        256..=32767 => "max<=32767: 8 types",
        32768..=65535 => "max<=65535: 7 types",
        65536..=2147483647 => "max<2^31: 6 types",
        2147483648..=4294967295 => "max<2^32: 5 types",
        _ => "wider: u64 usize i64 isize",
    });
    let distinct = a != b && a != c && a != d && b != c && b != d && c != d;
    if distinct {
        st.nontrivial(&(a, b, c, d), || json!({"tuple": [a, b, c, d]}));
    }
    Ok(())
}

fn boundary_values() -> Vec<u64> {
    let m = max_int();
    let mut v = vec![0u64, 1, 2, 3, 7, 9, 10, 11, 99, 100, m - 1, m];
    for k in 2u32..=49 {
        v.push((1u64 << k) - 1);
        v.push(1u64 << k);
        v.push((1u64 << k) + 1);
    }
    v.retain(|x| *x <= m);
    v.sort();
    v.dedup();
    v
}

pub fn run(cfg: &RunCfg) -> PropRun {
    let mut run = PropRun::default();
    run.rule = "value tuples fed through all ten integer types that can hold them: (a) u8/i8 exhaustive: every triple (a,b,c) in 0..=255 (i8 takes part when all <= 127) with fourth component cycling through all 256 values in the thorough tier / triples with two components from a 14-value boundary set and the third exhaustive in the quick tier; (b) every triple/quadruple over the boundary set {0,1,2,..,2^k-1,2^k,2^k+1,MAX-1,MAX}; (c) proptest random values <= MAX_SAFE_INTEGER. Oracle: fields equal the numbers themselves, Display equals 'a.b.c[-d]', Version::parse of that text gives the same five fields, Into agrees with From. Non-trivial = four pairwise different components; distinct by the tuple.".into();
    run.assumptions = vec!["negative values are outside the property (non-negative values only)".into()];

    // (a) u8 / i8 exhaustive
    let bset: Vec<u64> = vec![0, 1, 2, 9, 10, 99, 100, 126, 127, 128, 129, 200, 254, 255];
    let thorough = cfg.tier == Tier::Thorough;
    let bs = bset.clone();
    let out = enumerate(
        cfg,
        "u8-exhaustive",
        |shard, nsh| (0..256u64).filter(move |a| (*a as usize) % nsh == shard),
        move |a, st| {
            let a = *a;
            for b in 0..256u64 {
                for c in 0..256u64 {
                    let nb = bs.contains(&a) as u8 + bs.contains(&b) as u8 + bs.contains(&c) as u8;
                    if !thorough && nb < 2 {
                        continue;
                    }
                    let d = (a * 7 + b * 13 + c * 31 + 5) % 256;
                    check_values(a, b, c, d, nb >= 2 || (a + b + c) % 11 == 0, st)?;
                }
            }
            Ok(())
        },
    );
    run.absorb(out);
    run.stats.exhaustive_subspaces.push(json!({"name": if thorough {"all u8 triples (256^3), i8 for components <= 127"} else {"u8 triples with >= 2 boundary components"}, "fourth_component": "derived, covers all residues"}));
    // fourth component exhaustive for boundary triples
    let bs = bset.clone();
    let out = enumerate(
        cfg,
        "u8-fourth-exhaustive",
        |shard, nsh| (0..256u64).filter(move |a| (*a as usize) % nsh == shard),
        move |d, st| {
            for &a in &bs {
                for &b in &bs {
                    for &c in &bs {
                        check_values(a, b, c, *d, true, st)?;
                    }
                }
            }
            Ok(())
        },
    );
    run.absorb(out);
    run.stats.exhaustive_subspaces.push(json!({"name": "u8 quadruples: boundary triples x all 256 fourth components"}));

    // (b) boundary cross product for the wide types
    let bv = boundary_values();
    let n = bv.len();
    let bvr = &bv;
    let out = enumerate(
        cfg,
        "boundary-cross",
        |shard, nsh| (0..n).filter(move |i| i % nsh == shard),
        move |i, st| {
            for (jb, &b) in bvr.iter().enumerate() {
                for (jc, &c) in bvr.iter().enumerate() {
                    // all triples; the fourth component walks through the set in step with them
                    let d = bvr[(*i * 31 + jb * 7 + jc) % n];
                    check_values(bvr[*i], b, c, d, true, st)?;
                }
            }
            Ok(())
        },
    );
    run.absorb(out);
    run.stats.exhaustive_subspaces.push(json!({"name": "boundary set (0,1,2,..,2^k-1,2^k,2^k+1 for k=2..49,MAX-1,MAX) ^3, fourth component cycling through the set", "values": n}));

    // decimal-structured values (d*10^k, 10^k +- 1, m*10^k) in every position
    let dv = crate::gen::version::decimal_values();
    let dvr = &dv;
    let out = enumerate(
        cfg,
        "decimal-structured",
        move |shard, nsh| (0..dvr.len()).filter(move |i| i % nsh == shard),
        move |i, st| {
            let v = dvr[*i];
            let w = dvr[(*i * 7 + 3) % dvr.len()];
            for (a, b, c, d) in [(v, 0, 0, v), (0, v, 1, 0), (1, 2, v, w), (v, v, v, v), (w, v, 0, 1), (2, w, v, v)] {
                check_values(a, b, c, d, true, st)?;
            }
            Ok(())
        },
    );
    run.absorb(out);
    run.stats.exhaustive_subspaces.push(json!({"name": "decimal-structured values in every position", "values": dv.len()}));

    // (c) random
    let total = cfg.pick(200_000, 5_000_000);
    let m = max_int();
    let out = campaign(
        cfg,
        ID,
        "random-values",
        total,
        move || {
            let one = prop_oneof![
                2 => select(boundary_values()),
                2 => 0..=m,
                2 => crate::gen::version::log_uniform(),
                2 => crate::gen::version::decimal_structured(),
                1 => 0..=u32::MAX as u64,
                1 => 0..=u16::MAX as u64,
                1 => 0..=255u64,
            ];
            (one.clone(), one.clone(), one.clone(), one)
        },
        |(a, b, c, d): &(u64, u64, u64, u64), st| check_values(*a, *b, *c, *d, true, st),
    );
    run.absorb(out);
    run
}

pub fn replay(campaign: &str, case: &Value) -> Result<(), Failure> {
    let mut st = Stats::default();
    let bad = |e: serde_json::Error| Failure::new("bad-replay", e.to_string());
    match campaign {
        "random-values" => {
            let (a, b, c, d): (u64, u64, u64, u64) = serde_json::from_value(case.clone()).map_err(bad)?;
            check_values(a, b, c, d, true, &mut st)
        }
        "u8-exhaustive" => {
            let a: u64 = serde_json::from_value(case.clone()).map_err(bad)?;
            for b in 0..256u64 {
                for c in 0..256u64 {
                    check_values(a, b, c, (a * 7 + b * 13 + c * 31 + 5) % 256, true, &mut st)?;
                }
            }
            Ok(())
        }
        "u8-fourth-exhaustive" => {
            let d: u64 = serde_json::from_value(case.clone()).map_err(bad)?;
            for a in 0..256u64 {
                check_values(a, (a + 1) % 256, (a + 2) % 256, d, true, &mut st)?;
            }
            let bset: Vec<u64> = vec![0, 1, 2, 9, 10, 99, 100, 126, 127, 128, 129, 200, 254, 255];
            for &a in &bset {
                for &b in &bset {
                    for &c in &bset {
                        check_values(a, b, c, d, true, &mut st)?;
                    }
                }
            }
            Ok(())
        }
        "decimal-structured" => {
            let i: usize = serde_json::from_value(case.clone()).map_err(bad)?;
            let dv = crate::gen::version::decimal_values();
            let v = dv[i];
            let w = dv[(i * 7 + 3) % dv.len()];
            for (a, b, c, d) in [(v, 0, 0, v), (0, v, 1, 0), (1, 2, v, w), (v, v, v, v), (w, v, 0, 1), (2, w, v, v)] {
                check_values(a, b, c, d, true, &mut st)?;
            }
            Ok(())
        }
        "boundary-cross" => {
            let i: usize = serde_json::from_value(case.clone()).map_err(bad)?;
            let bv = boundary_values();
            let n = bv.len();
            for (jb, &b) in bv.iter().enumerate() {
                for (jc, &c) in bv.iter().enumerate() {
                    check_values(bv[i], b, c, bv[(i * 31 + jb * 7 + jc) % n], true, &mut st)?;
                }
            }
            Ok(())
        }
        _ => Err(Failure::new("bad-replay", format!("unknown campaign {}", campaign))),
    }
}
