//! C10 - allows_all(A, B) = true guarantees B's versions are all allowed by A.
use crate::engine::*;
use crate::ev;
use crate::gen::ranges::*;
use crate::props::alg::*;
use crate::props::c07::PairCase;
use crate::props::c09::structured_intervals;
use proptest::prelude::*;
use serde_json::{json, Value};

pub const ID: &str = "C10";

pub fn check_pair(c: &PairCase, st: &mut Stats) -> Result<(), Failure> {
    let a = ev!(eval(&c.a), st);
    let b = ev!(eval(&c.b), st);
    let (ra, rb) = match (&a.range, &b.range) {
        (Some(x), Some(y)) => (x, y),
        _ => {
            st.class("operand-empty(discarded)");
            st.discarded += 1;
            return Ok(());
        }
    };
    let ctx = || format!("A = {} = {:?}, B = {} = {:?}", c.a.show(), a.text, c.b.show(), b.text);
    // every range allows all of itself
    for (n, r) in [("A", ra), ("B", rb)] {
        let s = guard(|| r.allows_all(r)).map_err(|p| Failure::new("allows-all-panics", format!("{}: {}", ctx(), p)))?;
        if !s {
            return Err(Failure::new("allows-all-not-reflexive", format!("{}: {}.allows_all({}) = false", ctx(), n, n)));
        }
    }
    if b.model.ivs.len() != 1 {
        // the statement is about a single-alternative B
        st.class("B-multi-alternative(reflexivity only)");
        return Ok(());
    }
    let all = guard(|| ra.allows_all(rb)).map_err(|p| Failure::new("allows-all-panics", format!("{}: {}", ctx(), p)))?;
    st.eval(3);
    st.class(if all { "allows_all=true" } else { "allows_all=false" });
    // endpoint equal with different inclusivity
    let mut near = false;
    for x in &a.model.ivs {
        let y = &b.model.ivs[0];
        for (p, q) in [(&x.lo, &y.lo), (&x.hi, &y.hi)] {
            if let (Some((v1, i1)), Some((v2, i2))) = (p, q) {
                if crate::model::version::cmp_semver(v1, v2) == std::cmp::Ordering::Equal && i1 != i2 {
                    near = true;
                }
            }
        }
    }
    if near {
        st.class("same-endpoint-different-inclusivity");
    }
    if all || near {
        st.nontrivial(&(a.text.clone(), b.text.clone()), || json!({"A": a.text, "B": b.text, "allows_all": all}));
    }
    if all {
        let any = guard(|| ra.allows_any(rb)).map_err(|p| Failure::new("allows-any-panics", format!("{}: {}", ctx(), p)))?;
        if !any {
            return Err(Failure::new("allows-all-without-allows-any", format!("{}: allows_all = true but allows_any = false", ctx())));
        }
        if let Some(w) = points_outside(&b.model, &a.model) {
            return Err(Failure::new("allows-all-unsound", format!("{}: allows_all = true but {} is within B and outside A", ctx(), w.text())));
        }
        let pv = probes_of(&[&a, &b], &c.extra);
        for v in &pv {
            st.eval(1);
            if b.model.in_bounds(v) && !a.model.in_bounds(v) {
                return Err(Failure::new("allows-all-unsound", format!("{}: allows_all = true but {} is within B and outside A", ctx(), v.text())));
            }
            let cv = v.to_crate();
            if !v.is_pre() && sat(&b, &cv) && !sat(&a, &cv) {
                return Err(Failure::new("allows-all-unsound", format!("{}: allows_all = true but release {} satisfies B and not A", ctx(), v.text())));
            }
        }
    }
    if a.model.ivs.len() == 1 {
        st.class("A-single-alternative");
        let d = guard(|| rb.difference(ra)).map_err(|p| Failure::new("difference-panics", format!("{}: B.difference(A) panicked: {}", ctx(), p)))?;
        st.eval(1);
        if all != d.is_none() {
            return Err(Failure::new(
                "allows-all-vs-difference",
                format!("{}: A.allows_all(B) = {} but B.difference(A) = {:?}", ctx(), all, d.as_ref().map(|r| r.to_string())),
            ));
        }
    }
    Ok(())
}

pub fn strategy() -> BoxedStrategy<PairCase> {
    vpool()
        .prop_flat_map(|pool| (prop_oneof![1 => expr(pool.clone(), 1, 3), 1 => expr(pool.clone(), 0, 1)], prop_oneof![3 => expr(pool.clone(), 0, 1), 1 => expr(pool.clone(), 1, 1)], extra(pool)))
        .prop_map(|(a, b, extra)| PairCase { a, b, extra })
        .boxed()
}

pub fn run(cfg: &RunCfg) -> PropRun {
    let mut run = PropRun::default();
    run.rule = "pairs (A any Range value, B a single alternative): (a) enumerated: every ordered pair of the 91 single intervals over an adjacent 6-version chain with every bound kind; (b) proptest pairs over the C07 leaf generator, A single or multi alternative or a result of an operation, B mostly a single interval. Oracle: allows_all true => exact: no point of B outside A (interval computation) and no probe within B outside A, no release satisfying B and not A, allows_any true; A.allows_all(A); A single => allows_all == B.difference(A).is_none(). Non-trivial = allows_all answered true, or an endpoint of B equals an endpoint of A with different inclusivity; distinct by operand texts.".into();
    run.assumptions = vec!["completeness for multi-alternative A is not asserted (the statement gives only the implication)".into()];
    let ivs = structured_intervals();
    let n = ivs.len();
    let ir = &ivs;
    let out = enumerate(
        cfg,
        "structured-pairs",
        move |shard, nsh| (0..n).filter(move |i| i % nsh == shard).flat_map(move |i| (0..n).map(move |j| (i, j))),
        move |(i, j), st| {
            let c = PairCase { a: Expr::Leaf(ir[*i].clone()), b: Expr::Leaf(ir[*j].clone()), extra: vec![] };
            check_pair(&c, st)
        },
    );
    run.absorb(out);
    run.stats.exhaustive_subspaces.push(json!({"name": "single intervals over an adjacent 6-version chain, all bound kinds", "intervals": n, "ordered_pairs": n * n}));
    let out = campaign(cfg, ID, "pairs", cfg.pick(400_000, 4_000_000), strategy, check_pair);
    run.absorb(out);
    run
}

pub fn replay(campaign: &str, case: &Value) -> Result<(), Failure> {
    let bad = |e: serde_json::Error| Failure::new("bad-replay", e.to_string());
    let ivs = structured_intervals();
    let c: PairCase = match campaign {
        "structured-pairs" => {
            let (i, j): (usize, usize) = serde_json::from_value(case.clone()).map_err(bad)?;
            PairCase { a: Expr::Leaf(ivs[i].clone()), b: Expr::Leaf(ivs[j].clone()), extra: vec![] }
        }
        _ => serde_json::from_value(case.clone()).map_err(bad)?,
    };
    check_pair(&c, &mut Stats::default())
}
