//! C03 - a prerelease satisfies a range only via a same-tuple prerelease comparator.
use crate::engine::*;
use crate::findings;
use crate::gen::range_ast::*;
use crate::model::interval::IModel;
use crate::model::npm::{self, COp};
use crate::model::probes;
use crate::model::version::*;
use crate::props::c01::{extra_versions, interesting, F_EMPTY, F_HYPHEN, F_LT_MAJOR, F_WILD};
use nodejs_semver::{Range, Version};
use proptest::prelude::*;
use serde::{Deserialize, Serialize};
use serde_json::{json, Value};

pub const ID: &str = "C03";

#[derive(Clone, Debug, Serialize, Deserialize)]
pub struct Case {
    pub ast: RangeAst,
    pub extra: Vec<MVersion>,
}

fn with_build_everywhere(ast: &RangeAst) -> RangeAst {
    let mut a = ast.clone();
    let fix = |p: &mut Partial| {
        if p.comps.len() == 3 && !p.has_wild() {
            p.build = vec!["b7".to_string(), "0".to_string()];
        }
    };
    for alt in a.alts.iter_mut() {
        match alt {
            Alt::Hyphen { lo, hi, .. } => {
                if let Some(l) = lo {
                    fix(l);
                }
                fix(hi);
            }
            Alt::Simples { toks, .. } => {
                for t in toks.iter_mut() {
                    if let Tok::Cmp { p, .. } = t {
                        fix(p);
                    }
                }
            }
        }
    }
    a
}

fn lt_major_only_tuples(ast: &RangeAst) -> Vec<(u64, u64, u64)> {
    let mut out = vec![];
    for (p, op) in ast.all_partials() {
        if op == Some(Op::Lt) {
            match npm::norm(p) {
                (Some(a), None, _, _) => out.push((a, 0, 0)),
                // `<x` becomes `<0.0.0`: the same missing `-0`
                (None, _, _, _) => out.push((0, 0, 0)),
                _ => {}
            }
        }
    }
    out
}

pub fn check_case(c: &Case, st: &mut Stats) -> Result<(), Failure> {
    if !c.ast.well_formed() {
        return Ok(());
    }
    for (open, hit) in [(F_WILD, c.ast.has_wildcard_misplaced()), (F_HYPHEN, c.ast.has_lowerless_hyphen()), (F_EMPTY, c.ast.has_empty_alternative())] {
        if hit && findings::is_open(open) {
            st.known(open);
            return Ok(());
        }
    }
    let text = c.ast.render();
    let sets = npm::desugar(&c.ast);
    let r = match guard(|| Range::parse(&text)) {
        Ok(Ok(r)) => r,
        Ok(Err(_)) => {
            st.discarded += 1;
            return Ok(());
        }
        Err(p) => return Err(Failure::new("parse-panics", format!("Range::parse({:?}) panicked: {}", text, p))),
    };
    let im = IModel::of(&r).map_err(|e| Failure::new("display-unreadable", format!("{} {}", INCONCLUSIVE, e)))?;
    let mut pv = probes::probes(&interesting(&sets), &c.extra);
    // every probe also with build metadata
    let with_b: Vec<MVersion> = pv.iter().step_by(3).map(|v| v.clone().with_build(vec![MId::Str("exp".into()), MId::Num(5)])).collect();
    pv.extend(with_b);
    let lt_major = lt_major_only_tuples(&c.ast);
    let model_text = npm::sets_text(&sets);
    let mut accepted_by_oracle: Vec<bool> = Vec::with_capacity(pv.len());
    let mut compared: Vec<bool> = Vec::with_capacity(pv.len());
    let mut nontrivial = false;
    for v in &pv {
        let cv: Version = v.to_crate();
        let got = guard(|| r.satisfies(&cv)).map_err(|p| Failure::new("satisfies-panics", format!("{:?}.satisfies({}): {}", text, v.text(), p)))?;
        st.eval(1);
        // (ii) build metadata on the version never matters
        if !v.build.is_empty() {
            let nb = v.strip_build().to_crate();
            if r.satisfies(&nb) != got {
                return Err(Failure::new("build-metadata-changes-answer", format!("{:?}: satisfies({}) = {} but without build metadata {}", text, v.text(), got, !got)));
            }
        }
        // (iii) release versions are never affected by the gate
        if !v.is_pre() {
            let inb = im.in_bounds(v);
            if got != inb {
                return Err(Failure::new(
                    "release-affected-by-gate",
                    format!("{:?} = {:?}: release {} lies {} the bounds but satisfies = {}", text, r.to_string(), v.text(), if inb { "within" } else { "outside" }, got),
                ));
            }
        }
        let dc = npm::dont_care(&sets, v);
        let exp = npm::admits(&sets, v);
        accepted_by_oracle.push(exp);
        compared.push(!dc);
        if dc {
            if !st.frozen {
                st.dont_care += 1;
            }
            continue;
        }
        if v.is_pre() {
            // classification: which alternative bounds the version, does a comparator opt its tuple in
            let mut inside = false;
            let mut via_lower = false;
            let mut via_upper = false;
            for s in &sets {
                if npm::in_all(s, v) {
                    inside = true;
                    for cmp in s {
                        if cmp.v.is_pre() && cmp.v.tuple() == v.tuple() {
                            match cmp.op {
                                COp::Lt | COp::Le => via_upper = true,
                                _ => via_lower = true,
                            }
                        }
                    }
                }
            }
            if inside {
                nontrivial = true;
                if exp {
                    st.class("gate-passes");
                    if via_lower && !via_upper {
                        st.class("opt-in-via-lower-only");
                    } else if via_upper && !via_lower {
                        st.class("opt-in-via-upper-only");
                    } else {
                        st.class("opt-in-via-both");
                    }
                } else {
                    st.class("gate-blocks");
                }
            }
            // (i) the npm gate
            if got != exp {
                if findings::is_open(F_LT_MAJOR) && lt_major.contains(&v.tuple()) {
                    st.known(F_LT_MAJOR);
                    let n = compared.len();
                    compared[n - 1] = false;
                    continue;
                }
                let why = if exp {
                    "it is within an alternative that has a prerelease comparator on the same major.minor.patch"
                } else if inside {
                    "no comparator of the alternative whose bounds it meets carries a prerelease tag on the same major.minor.patch"
                } else {
                    "it is outside the bounds of every alternative"
                };
                return Err(Failure::new(
                    "prerelease-gate",
                    format!("{:?} = {:?} (npm: {:?}): satisfies({}) = {} but {}", text, r.to_string(), model_text, v.text(), got, why),
                ));
            }
        }
    }
    // (ii') build metadata on the comparators never matters
    let ast_b = with_build_everywhere(&c.ast);
    if ast_b != c.ast {
        let tb = ast_b.render();
        match guard(|| Range::parse(&tb)) {
            Ok(Ok(rb)) => {
                for v in &pv {
                    let cv = v.to_crate();
                    st.eval(1);
                    if rb.satisfies(&cv) != r.satisfies(&cv) {
                        return Err(Failure::new(
                            "build-metadata-changes-answer",
                            format!("{:?} and {:?} differ on {}: {} vs {}", text, tb, v.text(), r.satisfies(&cv), rb.satisfies(&cv)),
                        ));
                    }
                }
                st.class("comparators-with-build");
            }
            Ok(Err(e)) => return Err(Failure::new("build-metadata-changes-answer", format!("{:?} parses but {:?} does not: {}", text, tb, e))),
            Err(p) => return Err(Failure::new("parse-panics", format!("Range::parse({:?}) panicked: {}", tb, p))),
        }
    }
    // (iv) the resolver view: max/min_satisfying never select a prerelease the gate rejects
    let list: Vec<Version> = pv.iter().map(|v| v.to_crate()).collect();
    for (name, pick) in [("max_satisfying", guard(|| r.max_satisfying(&list).cloned())), ("min_satisfying", guard(|| r.min_satisfying(&list).cloned()))] {
        let pick = pick.map_err(|p| Failure::new("satisfying-panics", format!("{:?}.{}: {}", text, name, p)))?;
        if let Some(p) = pick {
            let m = MVersion::from_crate(&p);
            if m.is_pre() {
                if let Some(i) = pv.iter().position(|v| v.strip_build() == m.strip_build()) {
                    if compared[i] && !accepted_by_oracle[i] {
                        return Err(Failure::new("resolver-picks-gated-prerelease", format!("{:?}.{} over the probes returned {} which npm rejects", text, name, m.text())));
                    }
                }
            }
        }
    }
    if nontrivial {
        st.nontrivial(&text, || json!({"range": text, "npm": model_text, "crate": r.to_string()}));
    }
    Ok(())
}

pub fn strategy() -> BoxedStrategy<Case> {
    let wild_open = findings::is_open(F_WILD);
    let hyph_open = findings::is_open(F_HYPHEN);
    let empty_open = findings::is_open(F_EMPTY);
    pool_strategy()
        .prop_flat_map(move |pool| {
            // small pools: the tuples of comparators and probes collide
            let pool: Vec<u64> = pool.into_iter().map(|x| if x > 11 { x } else { x % 4 }).collect();
            let mut cfg = GenCfg::standard(pool.clone());
            cfg.allow_misplaced_wild = !wild_open;
            cfg.allow_lowerless_hyphen = !hyph_open;
            cfg.allow_empty_alt = !empty_open;
            cfg.pre_weight = 8;
            cfg.allow_garbage = false;
            cfg.max_toks = 2;
            (range_ast_with(cfg), extra_versions(pool))
        })
        .prop_map(|(ast, extra)| Case { ast, extra })
        .boxed()
}

/// ranges produced by intersect/difference: satisfies() must follow the gate as the printed bounds
/// state it (a prerelease needs a prerelease bound on its tuple in the interval whose bounds it meets)
pub fn check_result(e: &crate::gen::ranges::Expr, st: &mut Stats) -> Result<(), Failure> {
    use crate::props::alg::{eval, Ev};
    let v = match eval(e) {
        Ev::Ok(v) => v,
        Ev::Discard => {
            st.discarded += 1;
            return Ok(());
        }
        Ev::Fail(f) => return Err(f),
    };
    let r = match &v.range {
        Some(r) => r,
        None => {
            st.discarded += 1;
            return Ok(());
        }
    };
    let pv = probes::probes(&v.model.bound_versions(), &[]);
    let mut decided = false;
    for p in &pv {
        let cp = p.to_crate();
        let got = guard(|| r.satisfies(&cp)).map_err(|m| Failure::new("satisfies-panics", format!("{} = {:?}: satisfies({}) panicked: {}", e.show(), v.text, p.text(), m)))?;
        let exp = v.model.satisfies(p);
        st.eval(1);
        if p.is_pre() && v.model.in_bounds(p) {
            decided = true;
            st.class(if exp { "result:gate-passes" } else { "result:gate-blocks" });
        }
        if got != exp {
            return Err(Failure::new(
                "prerelease-gate-on-result",
                format!("{} = {:?}: satisfies({}) = {} but by the printed bounds and the prerelease rule it should be {}", e.show(), v.text, p.text(), got, exp),
            ));
        }
    }
    if decided && e.depth() > 0 {
        st.nontrivial(&v.text, || json!({"expr": e.show(), "value": v.text}));
    }
    Ok(())
}

pub fn run(cfg: &RunCfg) -> PropRun {
    let mut run = PropRun::default();
    run.rule = "ASTs in which most three-component comparators carry prerelease tags (through < <= > >= = bare ~ ^ and both hyphen operands) plus the implicit -0 uppers, x prerelease probes on the same tuple as each comparator (tag before / equal / after / longer / shorter), on neighbouring patch/minor/major tuples, on unrelated tuples, releases, each also with build metadata. Oracle: (i) npm gate computed from the AST, (ii) stripping/adding build metadata on the version or on every comparator never changes an answer, (iii) releases: satisfies == membership in the printed bounds, (iv) max/min_satisfying over the probe list never return a prerelease the gate rejects. Non-trivial = some prerelease probe lies inside the bounds of an alternative (the gate, not the bounds, decides); distinct by range text.".into();
    run.assumptions = vec!["prereleases of 0.0.0 against >=0.0.0 sets are don't-care (README vs node)".into()];
    if let Err(e) = crate::golden::check_range_golden(&mut run.stats) {
        run.inconclusive.push(e);
        return run;
    }
    let out = campaign(cfg, ID, "gate", cfg.pick(300_000, 3_000_000), strategy, check_case);
    run.absorb(out);
    let out = campaign(
        cfg,
        ID,
        "results",
        cfg.pick(200_000, 2_000_000),
        || crate::gen::ranges::vpool().prop_flat_map(|pool| crate::gen::ranges::expr_with_any(pool, 2, 3)),
        check_result,
    );
    run.absorb(out);
    // required class shares (generator health, not a verdict about the crate)
    let pass = run.stats.class_count("gate-passes");
    let block = run.stats.class_count("gate-blocks");
    let lo = run.stats.class_count("opt-in-via-lower-only");
    let up = run.stats.class_count("opt-in-via-upper-only");
    let tot = (pass + block).max(1);
    run.stats.notes.push(format!(
        "gate-decided prerelease probes: passes {:.1}% blocks {:.1}%; opt-in via lower only {:.1}% / upper only {:.1}% of passes",
        100.0 * pass as f64 / tot as f64,
        100.0 * block as f64 / tot as f64,
        100.0 * lo as f64 / pass.max(1) as f64,
        100.0 * up as f64 / pass.max(1) as f64
    ));
    if cfg.scale >= 1.0 && (pass * 20 < tot || block * 20 < tot || lo * 20 < pass || up * 20 < pass) {
        run.inconclusive.push("generator health: a gate class is below 5% (see notes)".into());
    }
    run
}

pub fn replay(campaign: &str, case: &Value) -> Result<(), Failure> {
    let bad = |e: serde_json::Error| Failure::new("bad-replay", e.to_string());
    if campaign == "results" {
        let e: crate::gen::ranges::Expr = serde_json::from_value(case.clone()).map_err(bad)?;
        return check_result(&e, &mut Stats::default());
    }
    let c: Case = serde_json::from_value(case.clone()).map_err(bad)?;
    check_case(&c, &mut Stats::default())
}
