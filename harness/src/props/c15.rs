//! C15 - range set algebra identities hold across arbitrary compositions.
use crate::engine::*;
use crate::findings;
use crate::gen::ranges::*;
use crate::model::probes;
use crate::model::version::*;
use crate::props::alg::*;
use crate::props::c13::F_D11;
use nodejs_semver::Range;
use proptest::prelude::*;
use serde::{Deserialize, Serialize};
use serde_json::{json, Value};

pub const ID: &str = "C15";

#[derive(Clone, Debug, Serialize, Deserialize)]
pub struct Case {
    pub a: Expr,
    pub b: Expr,
    pub c: Expr,
    pub extra: Vec<MVersion>,
}

pub fn trees(a: &Expr, b: &Expr, c: &Expr) -> Vec<(&'static str, Expr)> {
    let (a, b, c) = (a.clone(), b.clone(), c.clone());
    vec![
        ("A∩B", and(a.clone(), b.clone())),
        ("B∩A", and(b.clone(), a.clone())),
        ("(A∩B)∩C", and(and(a.clone(), b.clone()), c.clone())),
        ("A∩(B∩C)", and(a.clone(), and(b.clone(), c.clone()))),
        ("A∩A", and(a.clone(), a.clone())),
        ("A\\A", minus(a.clone(), a.clone())),
        ("A\\B", minus(a.clone(), b.clone())),
        ("(A\\B)∩B", and(minus(a.clone(), b.clone()), b.clone())),
        ("(A∩B)∩(A\\B)", and(and(a.clone(), b.clone()), minus(a.clone(), b.clone()))),
        ("A\\(A\\B)", minus(a.clone(), minus(a.clone(), b.clone()))),
        ("(A\\B)\\C", minus(minus(a.clone(), b.clone()), c.clone())),
        ("(A∩B)\\C", minus(and(a.clone(), b.clone()), c.clone())),
        ("A\\(B∩C)", minus(a.clone(), and(b.clone(), c.clone()))),
        ("A\\(B\\C)", minus(a.clone(), minus(b.clone(), c.clone()))),
        ("C∩(A\\B)", and(c, minus(a, b))),
    ]
}

pub fn check_case(cs: &Case, st: &mut Stats) -> Result<(), Failure> {
    let whole = and(and(cs.a.clone(), cs.b.clone()), cs.c.clone());
    let lm = match leaf_models(&whole) {
        Ok(m) => m,
        Err(EvalErr::Leaf(_)) => {
            st.discarded += 1;
            return Ok(());
        }
        Err(EvalErr::Panic(p)) => return Err(Failure::new("operation-panics", format!("parsing a leaf of {} panicked: {}", whole.show(), p))),
    };
    let mut bounds: Vec<MVersion> = lm.values().flat_map(|m| m.bound_versions()).collect();
    let leaf_share = {
        let ms: Vec<_> = lm.values().collect();
        let mut s = false;
        for i in 0..ms.len() {
            for j in i + 1..ms.len() {
                s |= share_bound(ms[i], ms[j]);
            }
        }
        s
    };
    let ts = trees(&cs.a, &cs.b, &cs.c);
    let mut vals = vec![];
    for (name, t) in &ts {
        let v = match eval(t) {
            Ev::Ok(v) => v,
            Ev::Discard => {
                st.discarded += 1;
                return Ok(());
            }
            Ev::Fail(f) => return Err(Failure::new(&f.check, format!("{} with A = {}, B = {}, C = {}: {}", name, cs.a.show(), cs.b.show(), cs.c.show(), f.message))),
        };
        if v.model.ivs.len() > 64 {
            st.discarded += 1;
            st.class("more-than-64-alternatives(discarded)");
            return Ok(());
        }
        bounds.extend(v.model.bound_versions());
        vals.push(v);
    }
    let pv = probes::probes(&bounds, &cs.extra);
    let ctx = |name: &str, t: &Expr, v: &Val| format!("{} = {} evaluates to {:?}", name, t.show(), v.text);
    let mut interesting = false;
    for ((name, t), v) in ts.iter().zip(vals.iter()) {
        let mut any_in = false;
        for p in &pv {
            let exp = model_in_bounds(t, &lm, p);
            let got = v.model.in_bounds(p);
            st.eval(1);
            any_in |= got;
            if got != exp {
                return Err(Failure::new(
                    "identity-violated",
                    format!("{}; {} should be {} its bounds (boolean evaluation from the leaves) but is {}", ctx(name, t, v), p.text(), if exp { "within" } else { "outside" }, if got { "within" } else { "outside" }),
                ));
            }
            if !p.is_pre() {
                let s = sat(v, &p.to_crate());
                if s != exp {
                    return Err(Failure::new("identity-violated-sat", format!("{}; release {} expected satisfies = {} but got {}", ctx(name, t, v), p.text(), exp, s)));
                }
            }
        }
        if t.depth() >= 2 && any_in {
            interesting = true;
        }
        // results remain printable, re-parsable operands
        if let Some(r) = &v.range {
            if v.model.max_component() > max_int() && findings::is_open(F_D11) {
                st.known(F_D11);
                continue;
            }
            if v.model.ivs.iter().any(|i| i.lo.is_none() && i.hi.is_none()) {
                // `Range::any()` survived: it prints as `*`, which re-parses to `>=0.0.0`; not a value
                // reachable from parse, so the print/parse clause does not apply to it
                st.class("result-contains-Range::any()");
                continue;
            }
            match guard(|| Range::parse(&v.text)) {
                Ok(Ok(r1)) => {
                    for p in pv.iter().step_by(2) {
                        let cp = p.to_crate();
                        st.eval(1);
                        if r1.satisfies(&cp) != r.satisfies(&cp) {
                            return Err(Failure::new("result-not-reparsable", format!("{}; printed and re-parsed it answers differently on {}", ctx(name, t, v), p.text())));
                        }
                    }
                    // accepted as an operand again
                    let again = guard(|| (r1.intersect(r).map(|x| x.to_string()), r.difference(&r1).map(|x| x.to_string())))
                        .map_err(|pp| Failure::new("operation-panics", format!("{}; using the re-parsed result as an operand panicked: {}", ctx(name, t, v), pp)))?;
                    if again.0.is_none() {
                        return Err(Failure::new("result-not-reusable", format!("{}; result ∩ re-parsed result = None", ctx(name, t, v))));
                    }
                    if let Some(d) = again.1 {
                        // result \ reparsed result must hold nothing
                        if let Some(dm) = crate::model::interval::IModel::from_display(&d) {
                            if let Some(w) = pv.iter().find(|p| dm.in_bounds(p)) {
                                return Err(Failure::new("result-not-reusable", format!("{}; result \\ re-parsed result = {:?} contains {}", ctx(name, t, v), d, w.text())));
                            }
                        }
                    }
                }
                Ok(Err(e)) => return Err(Failure::new("result-not-reparsable", format!("{}; the printed result does not parse: {}", ctx(name, t, v), e))),
                Err(pp) => return Err(Failure::new("operation-panics", format!("{}; re-parsing panicked: {}", ctx(name, t, v), pp))),
            }
        }
    }
    if leaf_share {
        st.class("leaves-share-a-bound-version");
    }
    if interesting && leaf_share {
        st.nontrivial(&(cs.a.show(), cs.b.show(), cs.c.show()), || json!({"A": cs.a.show(), "B": cs.b.show(), "C": cs.c.show(), "(A\\B)\\C": vals[10].text}));
    }
    Ok(())
}

pub fn strategy() -> BoxedStrategy<Case> {
    vpool()
        .prop_flat_map(|pool| (expr_with_any(pool.clone(), 1, 3), expr_with_any(pool.clone(), 1, 3), expr_with_any(pool.clone(), 1, 2), extra(pool)))
        .prop_map(|(a, b, c, extra)| Case { a, b, c, extra })
        .boxed()
}

pub fn run(cfg: &RunCfg) -> PropRun {
    let mut run = PropRun::default();
    run.rule = "triples (A, B, C) of expression trees (depth <= 1 each, leaves as in C07) combined into 15 composite trees of depth <= 3 (A∩B, B∩A, (A∩B)∩C, A∩(B∩C), A∩A, A\\A, A\\B, (A\\B)∩B, (A∩B)∩(A\\B), A\\(A\\B), (A\\B)\\C, (A∩B)\\C, A\\(B∩C), A\\(B\\C), C∩(A\\B)), all evaluated with the crate. Oracle: membership in the bounds of every composite value (and satisfies() for release probes) at ~40 probes around every bound occurring anywhere in the trees must equal the boolean evaluation of the tree from the *leaves'* interval models - this decides commutativity, associativity, idempotence, A\\A = (A\\B)∩B = ∅, the disjoint-union partition and A\\(A\\B) = A∩B at once; every result must print, re-parse to a pointwise-equal range and work as an operand again. Non-trivial = a composite of depth >= 2 with a non-empty result whose leaves share a bound version; distinct by the three trees.".into();
    run.assumptions = vec!["printed results with a component above MAX_SAFE_INTEGER are finding D11 (re-parse step skipped, counted)".into()];
    // every ordered triple over a stratified third of the 91 single intervals of the adjacent chain
    let ivs: Vec<String> = crate::props::c09::structured_intervals().into_iter().step_by(3).collect();
    let n = ivs.len();
    let ir = &ivs;
    let out = enumerate(
        cfg,
        "structured-triples",
        move |shard, nsh| (0..n * n).filter(move |k| k % nsh == shard).map(move |k| (k / n, k % n)),
        move |(i, j), st| {
            for k in 0..n {
                let c = Case { a: Expr::Leaf(ir[*i].clone()), b: Expr::Leaf(ir[*j].clone()), c: Expr::Leaf(ir[k].clone()), extra: vec![] };
                check_case(&c, st)?;
            }
            Ok(())
        },
    );
    run.absorb(out);
    run.stats.exhaustive_subspaces.push(json!({"name": "ordered triples of single intervals over an adjacent 6-version chain (every third interval), 15 composite trees each", "intervals": n, "triples": n * n * n}));
    let out = campaign(cfg, ID, "trees", cfg.pick(100_000, 1_500_000), strategy, check_case);
    run.absorb(out);
    run
}

pub fn replay(campaign: &str, case: &Value) -> Result<(), Failure> {
    let bad = |e: serde_json::Error| Failure::new("bad-replay", e.to_string());
    if campaign == "structured-triples" {
        let (i, j): (usize, usize) = serde_json::from_value(case.clone()).map_err(bad)?;
        let ivs: Vec<String> = crate::props::c09::structured_intervals().into_iter().step_by(3).collect();
        let mut st = Stats::default();
        for k in 0..ivs.len() {
            check_case(&Case { a: Expr::Leaf(ivs[i].clone()), b: Expr::Leaf(ivs[j].clone()), c: Expr::Leaf(ivs[k].clone()), extra: vec![] }, &mut st)?;
        }
        return Ok(());
    }
    let c: Case = serde_json::from_value(case.clone()).map_err(bad)?;
    check_case(&c, &mut Stats::default())
}
