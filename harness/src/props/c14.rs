//! C14 - max_satisfying / min_satisfying return the extreme satisfying list element.
use crate::engine::*;
use crate::gen::ranges::*;
use crate::model::version::*;
use nodejs_semver::{Range, Version};
use proptest::prelude::*;
use proptest::sample::select;
use serde::{Deserialize, Serialize};
use serde_json::{json, Value};
use std::cmp::Ordering;

pub const ID: &str = "C14";

#[derive(Clone, Debug, Serialize, Deserialize)]
pub struct Case {
    /// a range text, or (when `expr` is present) ignored in favour of the evaluated expression
    pub range: String,
    #[serde(default)]
    pub expr: Option<Expr>,
    pub list: Vec<MVersion>,
    /// rotation / reversal seeds for the permutations
    pub perms: Vec<(usize, bool)>,
}

fn check_list(r: &Range, rtext: &str, list: &[MVersion], st: &mut Stats) -> Result<(Option<MVersion>, Option<MVersion>), Failure> {
    let cl: Vec<Version> = list.iter().map(|v| v.to_crate()).collect();
    let sat: Vec<bool> = cl.iter().map(|v| r.satisfies(v)).collect();
    let s_idx: Vec<usize> = (0..cl.len()).filter(|i| sat[*i]).collect();
    let shown = || format!("range {:?}, list [{}]", rtext, list.iter().map(|v| v.text()).collect::<Vec<_>>().join(", "));
    let mut out = vec![];
    for (name, is_max) in [("max_satisfying", true), ("min_satisfying", false)] {
        let got = guard(|| if is_max { r.max_satisfying(&cl) } else { r.min_satisfying(&cl) }).map_err(|p| Failure::new("satisfying-panics", format!("{}: {} panicked: {}", shown(), name, p)))?;
        st.eval(1);
        match got {
            None => {
                if !s_idx.is_empty() {
                    return Err(Failure::new("none-although-satisfying", format!("{}: {} = None but {} satisfies", shown(), name, list[s_idx[0]].text())));
                }
                out.push(None);
            }
            Some(g) => {
                // a reference into the slice
                let pos = cl.iter().position(|x| std::ptr::eq(x, g));
                let pos = match pos {
                    Some(p) => p,
                    None => return Err(Failure::new("not-a-slice-element", format!("{}: {} returned a reference that is not an element of the slice ({})", shown(), name, g))),
                };
                if !sat[pos] {
                    return Err(Failure::new("selected-does-not-satisfy", format!("{}: {} = {} which does not satisfy the range", shown(), name, list[pos].text())));
                }
                for &i in &s_idx {
                    let c = cmp_semver(&list[pos], &list[i]);
                    if (is_max && c == Ordering::Less) || (!is_max && c == Ordering::Greater) {
                        return Err(Failure::new(
                            "not-extreme",
                            format!("{}: {} = {} but {} also satisfies and is {}", shown(), name, list[pos].text(), list[i].text(), if is_max { "higher" } else { "lower" }),
                        ));
                    }
                }
                out.push(Some(list[pos].clone()));
            }
        }
    }
    Ok((out[0].clone(), out[1].clone()))
}

pub fn check_case(c: &Case, st: &mut Stats) -> Result<(), Failure> {
    let (r, rtext) = match &c.expr {
        Some(e) => match eval_crate(e) {
            Ok(Some(r)) => {
                st.class("range-from-set-operations");
                let t = format!("{} = {}", e.show(), r);
                (r, t)
            }
            Ok(None) | Err(EvalErr::Leaf(_)) => {
                st.discarded += 1;
                return Ok(());
            }
            Err(EvalErr::Panic(p)) => return Err(Failure::new("operation-panics", p)),
        },
        None => match guard(|| Range::parse(&c.range)) {
            Ok(Ok(r)) => (r, c.range.clone()),
            Ok(Err(_)) => {
                st.discarded += 1;
                return Ok(());
            }
            Err(p) => return Err(Failure::new("parse-panics", format!("Range::parse({:?}) panicked: {}", c.range, p))),
        },
    };
    let c = &Case { range: rtext, expr: None, list: c.list.clone(), perms: c.perms.clone() };
    let (mx, mn) = check_list(&r, &c.range, &c.list, st)?;
    let cl: Vec<Version> = c.list.iter().map(|v| v.to_crate()).collect();
    let nsat = cl.iter().filter(|v| r.satisfies(v)).count();
    st.class(match nsat {
        0 => "nothing-satisfies",
        1 => "one-satisfies",
        _ => ">=2-satisfy",
    });
    if c.list.is_empty() {
        st.class("empty-list");
    }
    let bigger_unsat = mx.as_ref().map(|m| c.list.iter().zip(cl.iter()).any(|(v, cv)| !r.satisfies(cv) && cmp_semver(v, m) == Ordering::Greater)).unwrap_or(false);
    if bigger_unsat {
        st.class("non-satisfying-element-above-the-answer");
    }
    if c.list.iter().any(|v| !v.build.is_empty()) {
        st.class("build-metadata-in-list");
    }
    // permutations change the answer at most among precedence-equal elements
    for (rot, rev) in &c.perms {
        let mut l2 = c.list.clone();
        if !l2.is_empty() {
            let k = rot % l2.len();
            l2.rotate_left(k);
        }
        if *rev {
            l2.reverse();
        }
        let (mx2, mn2) = check_list(&r, &c.range, &l2, st)?;
        for (name, x, y) in [("max_satisfying", &mx, &mx2), ("min_satisfying", &mn, &mn2)] {
            let same = match (x, y) {
                (None, None) => true,
                (Some(a), Some(b)) => cmp_semver(a, b) == Ordering::Equal,
                _ => false,
            };
            if !same {
                return Err(Failure::new(
                    "order-dependent",
                    format!("range {:?}: {} = {:?} but after permuting the slice {:?}", c.range, name, x.as_ref().map(|v| v.text()), y.as_ref().map(|v| v.text())),
                ));
            }
        }
    }
    if nsat >= 2 && bigger_unsat {
        st.nontrivial(&(c.range.clone(), c.list.iter().map(|v| v.text()).collect::<Vec<_>>()), || {
            json!({"range": c.range, "list": c.list.iter().map(|v| v.text()).collect::<Vec<_>>(), "max": mx.as_ref().map(|v| v.text()), "min": mn.as_ref().map(|v| v.text())})
        });
    }
    Ok(())
}

pub fn strategy() -> BoxedStrategy<Case> {
    vpool()
        .prop_flat_map(|pool| {
            let tg = tags();
            let near = (select(pool.clone()), select(tg), 0u64..3, prop_oneof![3 => Just(vec![]), 1 => Just(vec![MId::Str("b".to_string())]), 1 => Just(vec![MId::Num(1)])])
                .prop_map(|(b, t, d, build)| MVersion::new(b.major, b.minor, b.patch + d).with_pre(t).with_build(build));
            let exact = (select(pool.clone()), prop_oneof![3 => Just(vec![]), 1 => Just(vec![MId::Str("x".to_string())])]).prop_map(|(b, build)| b.with_build(build));
            let huge = (select(vec![u64::MAX, u64::MAX - 1, 1u64 << 53, (1u64 << 53) + 1, max_int() + 1]), 0u64..3, 0u64..3)
                .prop_map(|(a, b, c)| MVersion::new(a, b, c));
            let near = prop_oneof![30 => near, 1 => huge].boxed();
            (
                prop_oneof![3 => leaf_text(pool.clone(), 3).prop_map(|t| (t, None)), 1 => expr_with_any(pool, 2, 3).prop_map(|e| (String::new(), Some(e)))],
                prop_oneof![
                    12 => proptest::collection::vec(prop_oneof![2 => near.clone(), 2 => exact.clone()], 0..=12),
                    1 => proptest::collection::vec(prop_oneof![2 => near, 2 => exact], 60..=140),
                ],
                proptest::collection::vec((0usize..12, any::<bool>()), 3),
            )
        })
        .prop_map(|((range, expr), list, perms)| Case { range, expr, list, perms })
        .boxed()
}

pub fn run(cfg: &RunCfg) -> PropRun {
    let mut run = PropRun::default();
    run.rule = "range (1..3 alternatives of interval/sugar texts over an adjacent-version pool) x list of 0..12 versions drawn at and around the range's bounds: unsorted, with duplicates, with versions equal up to build metadata, with prereleases above the highest satisfying release, lists where nothing satisfies; each list also in 3 rotations/reversals. Oracle: with S = elements the crate's satisfies() accepts: None <=> S empty; otherwise the result is pointer-identical to a slice element, is in S, and no element of S is higher (lower) by the model's SemVer comparison; permutations change the answer at most among precedence-equal elements. Non-trivial = |S| >= 2 and a non-satisfying element is higher than the max answer; distinct by (range, list).".into();
    run.assumptions = vec!["relative to the crate's own satisfies(), as the statement is".into()];
    let out = campaign(cfg, ID, "lists", cfg.pick(600_000, 6_000_000), strategy, check_case);
    run.absorb(out);
    run
}

pub fn replay(_campaign: &str, case: &Value) -> Result<(), Failure> {
    let c: Case = serde_json::from_value(case.clone()).map_err(|e| Failure::new("bad-replay", e.to_string()))?;
    check_case(&c, &mut Stats::default())
}
