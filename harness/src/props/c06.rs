//! C06 - no input makes any public operation panic, overflow or hang.
//! The harness profile has overflow checks and debug assertions enabled (Cargo.toml).
use crate::engine::*;
use crate::gen::range_ast as ga;
use crate::gen::ranges as gr;
use crate::gen::strings as gs;
use crate::gen::version as gv;
use miette::Diagnostic;
use nodejs_semver::{Range, SemverError, Version};
use proptest::prelude::*;
use proptest::sample::select;
use serde::{Deserialize, Serialize};
use serde_json::{json, Value};
use std::collections::hash_map::DefaultHasher;
use std::hash::{Hash, Hasher};
use std::sync::Mutex;
use std::time::{Duration, Instant};

pub const ID: &str = "C06";
pub const MAX_ALTS: usize = 64;

fn g<T>(path: &str, input: &dyn std::fmt::Debug, f: impl FnOnce() -> T) -> Result<T, Failure> {
    guard(f).map_err(|p| Failure::new("panic", format!("{} panicked on {:?}: {}", path, input, p)))
}

fn alts(r: &Range) -> usize {
    r.to_string().matches("||").count() + 1
}

pub fn exercise_error(what: &str, s: &str, e: &SemverError) -> Result<(), Failure> {
    g(&format!("{} error accessors/diagnostics", what), &s, || {
        let _ = e.input().len();
        let _ = e.offset();
        let _ = e.span().offset() + e.span().len();
        let _ = e.kind().to_string();
        let _ = e.location();
        let _ = e.to_string();
        let _ = format!("{:?}", e);
        let _ = e.clone() == *e;
        let _ = std::error::Error::source(e).map(|x| x.to_string());
        let _ = e.code().map(|c| c.to_string());
        let _ = e.help().map(|c| c.to_string());
        let _ = e.url().map(|c| c.to_string());
        let _ = e.severity();
        let _ = e.diagnostic_source().is_some();
        let _ = e.related().map(|r| r.count());
        let _ = e.kind().code().map(|c| c.to_string());
        let _ = e.kind().help().map(|c| c.to_string());
        let _ = e.kind().url().map(|c| c.to_string());
        if let (Some(labels), Some(sc)) = (e.labels(), e.source_code()) {
            for l in labels {
                for ctx in [0usize, 1, 3] {
                    if let Ok(c) = sc.read_span(l.inner(), ctx, ctx) {
                        let _ = (c.data().len(), c.line(), c.column(), c.line_count(), c.span().offset());
                    }
                }
            }
        }
        // the three report handlers are by far the most expensive part: always for inputs with
        // non-ASCII characters, newlines or near/over the length limit, otherwise for every 4th input
        if s.is_ascii() && !s.contains('\n') && s.len() < 200 && crate::engine::hash_of(s) % 4 != 0 {
            return;
        }
        let mut out = String::new();
        let _ = miette::NarratableReportHandler::new().render_report(&mut out, e);
        let _ = miette::NarratableReportHandler::new().with_context_lines(3).render_report(&mut out, e);
        let mut js = String::new();
        let _ = miette::JSONReportHandler::new().render_report(&mut js, e);
        let rep = miette::Report::new(e.clone());
        let _ = format!("{:?} {}", rep, rep);
    })
}

fn digest<T: Hash>(t: &T) -> u64 {
    let mut h = DefaultHasher::new();
    t.hash(&mut h);
    h.finish()
}

pub fn exercise_version(s: &str, v: &Version) -> Result<(), Failure> {
    g("Version unary surface (Display, Debug, Clone, ==, Hash, cmp, diff, is_prerelease, serde, re-parse)", &s, || {
        let t = v.to_string();
        let _ = format!("{:?}", v);
        let c = v.clone();
        let _ = c == *v;
        let _ = digest(v);
        let _ = v.cmp(&c);
        let _ = v.diff(&c);
        let _ = v.is_prerelease();
        let js = serde_json::to_string(v);
        if let Ok(js) = js {
            let _ = serde_json::from_str::<Version>(&js);
        }
        let _ = Version::parse(&t);
        let _ = t.parse::<Version>();
        let _ = v.satisfies(&Range::any());
    })
}

pub fn exercise_range(s: &str, r: &Range) -> Result<(), Failure> {
    g("Range unary surface (Display, Debug, Clone, ==, Hash, min_version, serde, re-parse, self-operations)", &s, || {
        let t = r.to_string();
        let _ = format!("{:?}", r);
        let c = r.clone();
        let _ = c == *r;
        let _ = digest(r);
        let m = r.min_version();
        if let Some(m) = &m {
            let _ = r.satisfies(m);
            let _ = m.satisfies(r);
            let _ = r.max_satisfying(std::slice::from_ref(m));
            let _ = r.min_satisfying(std::slice::from_ref(m));
        }
        let _ = r.max_satisfying(&[]);
        if let Ok(js) = serde_json::to_string(r) {
            let _ = serde_json::from_str::<Range>(&js);
        }
        if let Ok(r1) = Range::parse(&t) {
            let _ = r1 == *r;
            let _ = r1.to_string();
        }
        let _ = t.parse::<Range>();
    })?;
    if alts(r) <= MAX_ALTS {
        g("Range against itself (allows_all, allows_any, intersect, difference)", &s, || {
            let _ = r.allows_all(r);
            let _ = r.allows_any(r);
            let i = r.intersect(r);
            let d = r.difference(r);
            if let Some(i) = i {
                let _ = i.to_string();
                let _ = i.min_version();
            }
            if let Some(d) = d {
                let _ = d.to_string();
            }
            let any = Range::any();
            let _ = any.difference(r).map(|x| x.to_string());
            let _ = any.intersect(r).map(|x| x.to_string());
            let _ = r.difference(&any).map(|x| x.to_string());
        })?;
    }
    Ok(())
}

/// everything the property names, on a pool of input strings
pub fn check_pool(pool: &Vec<String>, st: &mut Stats) -> Result<(), Failure> {
    let mut versions: Vec<(String, Version)> = vec![];
    let mut ranges: Vec<(String, Range)> = vec![];
    let mut err_special = false;
    for s in pool {
        st.eval(2);
        match g("Version::parse", s, || Version::parse(s))? {
            Ok(v) => {
                exercise_version(s, &v)?;
                versions.push((format!("Version::parse({:?})", s), v));
            }
            Err(e) => {
                exercise_error("Version::parse", s, &e)?;
                if !s.is_ascii() || s.contains('\n') {
                    err_special = true;
                }
            }
        }
        match g("Range::parse", s, || Range::parse(s))? {
            Ok(r) => {
                exercise_range(s, &r)?;
                if alts(&r) <= MAX_ALTS {
                    ranges.push((format!("Range::parse({:?})", s), r));
                }
            }
            Err(e) => {
                exercise_error("Range::parse", s, &e)?;
                if !s.is_ascii() || s.contains('\n') {
                    err_special = true;
                }
            }
        }
    }
    // serde with JSON that is not a string, and with strings in other JSON positions
    for js in ["123", "null", "true", "[1,2,3]", "{\"major\":1}", "1.5", "\"\"", "[\"1.2.3\"]", "{\"v\":\"1.2.3\"}"] {
        g("serde_json::from_str of non-string JSON", &js, || {
            let _ = serde_json::from_str::<Version>(js).is_ok();
            let _ = serde_json::from_str::<Range>(js).is_ok();
            let _ = serde_json::from_str::<Vec<Version>>(js).is_ok();
            let _ = serde_json::from_str::<std::collections::HashMap<String, Range>>(js).is_ok();
        })?;
    }
    // serde through other front ends of the data model: byte buffers (incl. truncated UTF-8), borrowed and
    // owned strings, numbers, sequences
    for s in pool.iter().take(2) {
        let bytes = s.as_bytes();
        for cut in [bytes.len(), bytes.len().saturating_sub(1), bytes.len().saturating_sub(2)] {
            let buf = &bytes[..cut];
            g("Deserialize from a byte buffer", &s, || {
                use serde::de::value::{BorrowedBytesDeserializer, BytesDeserializer, Error as DeError};
                use serde::Deserialize;
                let _ = Version::deserialize(BytesDeserializer::<DeError>::new(buf)).is_ok();
                let _ = Range::deserialize(BytesDeserializer::<DeError>::new(buf)).is_ok();
                let _ = Version::deserialize(BorrowedBytesDeserializer::<DeError>::new(buf)).is_ok();
                let _ = Range::deserialize(BorrowedBytesDeserializer::<DeError>::new(buf)).is_ok();
            })?;
        }
        g("Deserialize from str / String / u64 / seq deserializers", &s, || {
            use serde::de::value::{BorrowedStrDeserializer, Error as DeError, SeqDeserializer, StrDeserializer, StringDeserializer, U64Deserializer};
            use serde::Deserialize;
            let _ = Version::deserialize(StrDeserializer::<DeError>::new(s)).is_ok();
            let _ = Range::deserialize(StrDeserializer::<DeError>::new(s)).is_ok();
            let _ = Version::deserialize(BorrowedStrDeserializer::<DeError>::new(s)).is_ok();
            let _ = Range::deserialize(BorrowedStrDeserializer::<DeError>::new(s)).is_ok();
            let _ = Version::deserialize(StringDeserializer::<DeError>::new(s.clone())).is_ok();
            let _ = Range::deserialize(StringDeserializer::<DeError>::new(s.clone())).is_ok();
            let _ = Version::deserialize(U64Deserializer::<DeError>::new(s.len() as u64)).is_ok();
            let _ = Range::deserialize(SeqDeserializer::<_, DeError>::new(vec![1u8, 2, 3].into_iter())).is_ok();
        })?;
    }
    // versions built by tuple conversion of non-negative values (incl. beyond MAX_SAFE_INTEGER)
    let extra_v: Vec<(String, Version)> = vec![
        ("Version::from((u64::MAX, 0u64, u64::MAX))".into(), Version::from((u64::MAX, 0u64, u64::MAX))),
        ("Version::from((0u8, 0u8, 0u8, 0u8))".into(), Version::from((0u8, 0u8, 0u8, 0u8))),
        ("Version::from((i64::MAX, i64::MAX, i64::MAX, i64::MAX))".into(), Version::from((i64::MAX, i64::MAX, i64::MAX, i64::MAX))),
    ];
    // struct literals: components around 2^63 / 2^64 with prerelease tags (signed casts, subtractions, +1)
    let mut extra_v = extra_v;
    for (a, b, c) in [(1u64 << 63, 0u64, 0u64), (1, 2, 1u64 << 63), (1, (1u64 << 63) + 2, 3), (u64::MAX, u64::MAX, u64::MAX), (0, 0, (1u64 << 63) - 1), ((1u64 << 63) + 1, 2, 3)] {
        for tag in ["rc", "0", "beta"] {
            let mut v = Version::from((a, b, c));
            v.pre_release = vec![match tag.parse::<u64>() {
                Ok(n) => nodejs_semver::Identifier::Numeric(n),
                Err(_) => nodejs_semver::Identifier::AlphaNumeric(tag.to_string()),
            }];
            extra_v.push((format!("Version{{{}.{}.{}-{}}}", a, b, c, tag), v));
        }
    }
    let all_versions: Vec<&(String, Version)> = versions.iter().chain(extra_v.iter()).collect();
    // version x version, version x range
    let vlist: Vec<Version> = all_versions.iter().map(|(_, v)| v.clone()).collect();
    for (na, a) in &all_versions {
        for (nb, b) in &all_versions {
            g("Version::diff / cmp / ==", &(na, nb), || {
                let _ = a.diff(b).map(|d| d.to_string());
                let _ = a.cmp(b);
                let _ = a == b;
                let _ = a.partial_cmp(b);
            })?;
            st.eval(1);
        }
        for (nr, r) in &ranges {
            g("satisfies", &(nr, na), || {
                let _ = r.satisfies(a);
                let _ = a.satisfies(r);
            })?;
            st.eval(1);
        }
    }
    for (nr, r) in &ranges {
        g("max_satisfying / min_satisfying", &(nr, vlist.len()), || {
            let _ = r.max_satisfying(&vlist).map(|v| v.to_string());
            let _ = r.min_satisfying(&vlist).map(|v| v.to_string());
        })?;
    }
    // binary operations on all ordered pairs (incl. each value against itself), then compositions
    let mut binary_ran = false;
    let mut gen0: Vec<(String, Range)> = ranges.clone();
    let mut all: Vec<(String, Range)> = ranges.clone();
    for depth in 1..=3 {
        let mut next: Vec<(String, Range)> = vec![];
        for (na, a) in &gen0 {
            for (nb, b) in &all {
                for (x, nx, y, ny) in [(a, na, b, nb), (b, nb, a, na)] {
                    if depth > 1 && std::ptr::eq(x, y) {
                        continue;
                    }
                    let path = format!("({}) op ({})", nx, ny);
                    let (i, d) = g("intersect / difference / allows_all / allows_any", &path, || {
                        let _ = x.allows_all(y);
                        let _ = x.allows_any(y);
                        (x.intersect(y), x.difference(y))
                    })?;
                    binary_ran = true;
                    st.eval(4);
                    for (op, res) in [("∩", i), ("\\", d)] {
                        if let Some(res) = res {
                            let name = format!("({}) {} ({})", nx, op, ny);
                            exercise_range(&name, &res)?;
                            for (nv, v) in all_versions.iter().take(4) {
                                g("satisfies on a result", &(&name, nv), || res.satisfies(v))?;
                            }
                            if next.len() < 6 && alts(&res) <= MAX_ALTS {
                                next.push((name, res));
                            }
                        }
                    }
                }
                if depth == 3 {
                    break;
                }
            }
        }
        if next.is_empty() {
            break;
        }
        all.extend(next.iter().cloned());
        gen0 = next;
        st.class(match depth {
            1 => "composition-depth-1",
            2 => "composition-depth-2",
            _ => "composition-depth-3",
        });
    }
    if !versions.is_empty() {
        st.class("some-version-parsed");
    }
    if !ranges.is_empty() {
        st.class("some-range-parsed");
    }
    if err_special {
        st.class("error-on-non-ascii-or-multiline-input");
    }
    if (binary_ran && (!versions.is_empty() || !ranges.is_empty())) || err_special {
        st.nontrivial(pool, || json!({"inputs": pool}));
    }
    Ok(())
}

// --- watchdog -------------------------------------------------------------------------------

static CURRENT: Mutex<Vec<Option<(Instant, String)>>> = Mutex::new(Vec::new());
thread_local! { static SLOT: std::cell::Cell<usize> = std::cell::Cell::new(usize::MAX); }

fn slot() -> usize {
    SLOT.with(|s| {
        if s.get() == usize::MAX {
            let mut c = CURRENT.lock().unwrap();
            c.push(None);
            s.set(c.len() - 1);
        }
        s.get()
    })
}

pub fn current_dir() -> String {
    format!("{}/work/c06-current", crate::findings::verif_dir())
}

fn watched(pool: &Vec<String>, st: &mut Stats) -> Result<(), Failure> {
    let k = slot();
    // multi-string pools and long inputs also leave a trace on disk: if the process dies (abort on
    // allocation failure, stack overflow) the supervising parent re-executes the candidates one by one
    if pool.len() > 1 || pool.iter().any(|s| s.len() > 64) {
        let _ = std::fs::write(format!("{}/{}.json", current_dir(), k), serde_json::to_string(pool).unwrap_or_default());
    }
    {
        let mut c = CURRENT.lock().unwrap();
        let shown: Vec<String> = pool.iter().map(|s| if s.len() > 300 { format!("{}... ({} bytes)", &s.chars().take(200).collect::<String>(), s.len()) } else { s.clone() }).collect();
        c[k] = Some((Instant::now(), format!("{:?}", shown)));
    }
    let r = check_pool(pool, st);
    CURRENT.lock().unwrap()[k] = None;
    r
}

fn start_watchdog(limit: Duration) {
    std::thread::spawn(move || loop {
        std::thread::sleep(Duration::from_millis(500));
        let c = CURRENT.lock().unwrap();
        for e in c.iter().flatten() {
            if e.0.elapsed() > limit {
                eprintln!("[C06] watchdog: one case has been running for more than {:?}: {}", limit, e.1);
                eprintln!("[C06] inconclusive: possible hang (reported as exit 2, never as a violation)");
                std::process::exit(2);
            }
        }
    });
}

// --- generators -----------------------------------------------------------------------------

pub fn one_string() -> BoxedStrategy<String> {
    let ast = ga::pool_strategy()
        .prop_flat_map(|pool| {
            let mut cfg = ga::GenCfg::standard(pool);
            cfg.allow_misplaced_wild = true;
            cfg.allow_lowerless_hyphen = true;
            cfg.allow_empty_alt = true;
            ga::range_ast_with(cfg)
        })
        .prop_map(|a| a.render());
    let leafs = gr::vpool().prop_flat_map(|pool| gr::leaf_text(pool, 3));
    let version = crate::props::c05::random_text();
    let m = nodejs_semver::MAX_SAFE_INTEGER;
    let limits = (select(gs::limit_numbers()), select(vec!["", "^", "~", ">", "<=", ">=", "<", "="]), 0usize..4).prop_map(move |(n, op, k)| match k {
        0 => format!("{}{}", op, n),
        1 => format!("{}1.{}", op, n),
        2 => format!("{}1.2.{}", op, n),
        _ => format!("{}{}.{}.{} - {}", op, n, m, m, n),
    });
    let long = (select(vec!["1.2.3 ", "||", "a", ">=", "1.", " ", "^ ", "1 - ", "1.2.3||", "9", "a.", "~>", "x.", "- ", "é", "<1 >2 ", "1.2.3-a || "]), 50usize..400, select(vec!["", "1.2.3", "x", "-"]))
        .prop_map(|(u, n, tail)| format!("{}{}", u.repeat(n), tail));
    prop_oneof![
        4 => gs::soup(10),
        4 => ast,
        3 => leafs,
        3 => version,
        1 => limits,
        1 => long,
        1 => crate::props::c17::multiline_text(),
    ]
    .boxed()
}

pub fn pool_strategy() -> BoxedStrategy<Vec<String>> {
    proptest::collection::vec(one_string(), 2..=4).boxed()
}

pub const SHORT_ALPHA: &str = "01.-+x*<>=~^| ";

// --- scaling (the "time roughly linear" clause) -----------------------------------------------

fn thread_cpu() -> f64 {
    let mut ts = libc::timespec { tv_sec: 0, tv_nsec: 0 };
    unsafe {
        libc::clock_gettime(libc::CLOCK_THREAD_CPUTIME_ID, &mut ts);
    }
    ts.tv_sec as f64 + ts.tv_nsec as f64 * 1e-9
}

fn time_of(s: &str) -> f64 {
    // median of 5 runs of: both parsers + Display/min_version/satisfies of the result
    let mut ts = vec![];
    for _ in 0..5 {
        let t0 = thread_cpu();
        let _ = std::hint::black_box(Version::parse(s).is_ok());
        if let Ok(r) = Range::parse(s) {
            let _ = std::hint::black_box(r.to_string().len());
            let _ = std::hint::black_box(r.min_version());
            let _ = std::hint::black_box(r.satisfies(&Version::from((1u64, 2u64, 3u64))));
        }
        ts.push(thread_cpu() - t0);
    }
    ts.sort_by(|a, b| a.partial_cmp(b).unwrap());
    ts[2]
}

pub fn scaling_families() -> Vec<(&'static str, String, String)> {
    // (name, repeated unit, tail)
    vec![
        ("1.2.3_", "1.2.3 ".into(), "".into()),
        ("||", "||".into(), "".into()),
        ("a", "a".into(), "".into()),
        (">=", ">=".into(), "".into()),
        ("1.", "1.".into(), "".into()),
        ("blank", " ".into(), "".into()),
        ("^_", "^ ".into(), "".into()),
        ("1_-_", "1 - ".into(), "".into()),
        ("1.2.3||", "1.2.3||".into(), "1.2.3".into()),
        ("9", "9".into(), "".into()),
        ("1.2.3-a.a.", "a.".into(), "a".into()),
        ("~>", "~>".into(), "".into()),
        ("x.", "x.".into(), "".into()),
        ("-_", "- ".into(), "".into()),
        (">=1.2.3_<2_", ">=1.2.3 <2 ".into(), "".into()),
        ("1.2.3_||_>=4_", "1.2.3 || >=4 ".into(), "".into()),
        ("foo_", "foo ".into(), "1.2.3".into()),
        ("foo||", "foo||".into(), "1.2.3".into()),
        (">=1.y_", ">=1.y ".into(), "".into()),
        ("1.2.3.4_", "1.2.3.4 ".into(), "2".into()),
        // counting families: `{i}` is the running index, so all units differ from each other (anything that
        // compares, searches or de-duplicates earlier units shows here and not in the repetitions above)
        ("ladder:>={i}_", ">={i} ".into(), "<900000000".into()),
        ("ladder:<{i}_", "<{i} ".into(), ">0".into()),
        ("ladder:{i}||", "{i}||".into(), "1".into()),
        ("ladder:{i}.x_", "{i}.x ".into(), "".into()),
        ("ladder:^{i}.{i}_||_", "^{i}.{i} || ".into(), "1".into()),
        ("ladder:>=1.2.{i}_", ">=1.2.{i} ".into(), "".into()),
        ("ladder:{i}_-_{i}.5||", "{i} - {i}.5||".into(), "1".into()),
        ("ladder:1.2.3-{i}.", "{i}.".into(), "a".into()),
        ("ladder:1.2.3+{i}.", "{i}.".into(), "a".into()),
        ("ladder:foo{i}_", "foo{i} ".into(), "1".into()),
    ]
}

pub fn family_text(name: &str, unit: &str, tail: &str, n: usize) -> String {
    let mut s = if name == "1.2.3-a.a." || name == "ladder:1.2.3-{i}." {
        "1.2.3-".to_string()
    } else if name == "ladder:1.2.3+{i}." {
        "1.2.3+".to_string()
    } else {
        String::new()
    };
    if name.starts_with("ladder:") {
        for i in 1..=n {
            s.push_str(&unit.replace("{i}", &i.to_string()));
        }
    } else {
        s.push_str(&unit.repeat(n));
    }
    s.push_str(tail);
    s
}

/// generated scaling families: a unit of 1..4 soup tokens (one of them may be the running index `{i}`, which
/// makes all repetitions differ) repeated n and 8n times
#[derive(Clone, Debug, Serialize, Deserialize)]
pub struct ScaleCase {
    pub tokens: Vec<String>,
    pub tail: String,
}

pub fn scale_strategy() -> BoxedStrategy<ScaleCase> {
    let mut toks = gs::soup_tokens();
    toks.retain(|t| t.len() <= 8);
    toks.extend(["{i}", "{i}", "{i}", ">={i}", "{i}.", "-{i}", "1.2.{i}", " ", "||", " || ", "1.2.3-", "+", "<", "^", "~", "x", "*"].iter().map(|s| s.to_string()));
    (proptest::collection::vec(select(toks), 1..=4), select(vec!["", "1.2.3", " <9", "||1", " x"]))
        .prop_map(|(tokens, tail)| ScaleCase { tokens, tail: tail.to_string() })
        .boxed()
}

pub fn scale_text(c: &ScaleCase, n: usize) -> String {
    let unit = c.tokens.concat();
    let mut s = String::with_capacity(n * (unit.len() + 4));
    if unit.contains("{i}") {
        for i in 1..=n {
            s.push_str(&unit.replace("{i}", &i.to_string()));
        }
    } else {
        for _ in 0..n {
            s.push_str(&unit);
        }
    }
    s.push_str(&c.tail);
    s
}

pub fn check_scale(c: &ScaleCase, st: &mut Stats) -> Result<(), Failure> {
    let unit_len = c.tokens.concat().len().max(1) + 2;
    let n = (16_000 / unit_len).max(200);
    let (s1, s8) = (scale_text(c, n), scale_text(c, n * 8));
    let quick = |s: &str| {
        let t0 = thread_cpu();
        let _ = std::hint::black_box(Version::parse(s).is_ok());
        if let Ok(r) = Range::parse(s) {
            let _ = std::hint::black_box(r.to_string().len());
            let _ = std::hint::black_box(r.min_version());
        }
        thread_cpu() - t0
    };
    st.eval(2);
    let t8 = quick(&s8);
    if t8 < 0.02 {
        st.class("scaling:light");
        return Ok(()); // 130 kB in under 20 ms: nothing super-linear here
    }
    let t1 = quick(&s1).max(1e-6);
    st.class("scaling:timed");
    st.nontrivial(&c.tokens.concat(), || json!({"unit": c.tokens.concat(), "n": n, "t_n_ms": t1 * 1e3, "t_8n_ms": t8 * 1e3}));
    if t8 / t1 <= 24.0 {
        return Ok(());
    }
    // suspicious: measure properly (median of 5 each), three times
    let mut ratios = vec![];
    for _ in 0..3 {
        let (a, b) = (time_of(&s1).max(1e-6), time_of(&s8));
        ratios.push(b / a);
    }
    if ratios.iter().all(|r| *r > 24.0) {
        return Err(Failure::new(
            "super-linear-time",
            format!("unit {:?} (tail {:?}): CPU time grows by {:?} when the input grows 8x ({} -> {} repetitions, {} -> {} bytes); linear would be ~8, quadratic ~64", c.tokens.concat(), c.tail, ratios, n, n * 8, s1.len(), s8.len()),
        ));
    }
    Ok(())
}

pub fn scaling(run: &mut PropRun, cfg: &RunCfg) {
    let base: usize = if cfg.tier == Tier::Thorough { 40_000 } else { 10_000 };
    // one thread per family: CPU time is per thread, so the ratio does not depend on the other threads
    let results: Vec<(Value, Option<Failure>)> = std::thread::scope(|sc| {
        let hs: Vec<_> = scaling_families()
            .into_iter()
            .map(|(name, unit, tail)| {
                sc.spawn(move || {
                    let ladder = name.starts_with("ladder:");
                    let base = if ladder { base / 4 } else { base };
                    let mk = |n: usize| family_text(name, &unit, &tail, n);
                    let mut ratios = vec![];
                    let mut t_big = 0.0;
                    let mut flagged = 0;
                    for _rep in 0..3 {
                        let t1 = time_of(&mk(base));
                        let t8 = time_of(&mk(base * 8));
                        t_big = t8;
                        if t8 < 0.004 {
                            ratios.push(f64::NAN); // too light to time
                            continue;
                        }
                        let ratio = t8 / t1.max(1e-6);
                        ratios.push(ratio);
                        if ratio > 24.0 {
                            flagged += 1;
                        }
                    }
                    let rep = json!({"family": name, "n": base, "t_8n_ms": (t_big * 1e3 * 100.0).round() / 100.0,
                        "ratios_t8n_over_tn": ratios.iter().map(|r| if r.is_nan() { Value::Null } else { json!((r * 10.0).round() / 10.0) }).collect::<Vec<_>>()});
                    let fail = if flagged == 3 {
                        let mut f = Failure::new(
                            "super-linear-time",
                            format!("family {:?}: CPU time grows by {:?} when the input grows 8x ({} -> {} repetitions); linear would be ~8, quadratic ~64", name, ratios, base, base * 8),
                        );
                        f.case = json!({"family": name, "n": base});
                        f.campaign = "scaling".into();
                        Some(f)
                    } else {
                        None
                    };
                    (rep, fail)
                })
            })
            .collect();
        hs.into_iter().map(|h| h.join().expect("scaling thread")).collect()
    });
    let mut report = vec![];
    for (rep, fail) in results {
        report.push(rep);
        run.stats.evaluations += 30;
        if let Some(f) = fail {
            run.failures.push(f);
        }
    }
    run.stats.notes.push(format!("scaling: {}", serde_json::to_string(&report).unwrap()));
}

pub fn run(cfg: &RunCfg) -> PropRun {
    let mut run = PropRun::default();
    run.rule = "pools of 2..4 input strings (token soup over every token class incl. MAX_SAFE_INTEGER+1, u64::MAX, 2^64, 30-digit numbers, multi-byte and control characters; AST-rendered ranges incl. the finding classes; algebra leaf texts over adjacent versions; spelled versions with edits; limit numbers under every operator; long repetitions; multi-line/over-long texts) + every string up to length 5 over a 14-symbol alphabet + near-limit lengths. For each string both parsers run; on every Ok/Err the whole public surface is called under catch_unwind with overflow checks and debug assertions on: Display/Debug/Clone/==/Hash/serde, every SemverError accessor and miette diagnostic incl. three report handlers, satisfies, min_version, max/min_satisfying, diff, and intersect/difference/allows_all/allows_any on all ordered pairs incl. each value against itself, then on results up to composition depth 3 (operands capped at 64 alternatives). A case that burns more than 60 s of thread CPU time is a hang and a violation (the process is supervised: a crash of the check process is re-examined pool by pool); long inputs, many-alternative operands and repeated feedback of results run in child processes on a 256 KiB stack; CPU-time scaling of 30 adversarial families (20 repetitions of one unit, 10 ladders of pairwise different units) is measured at n and 8n, and so are generated families (units of 1..4 soup tokens, optionally with a running index). Non-trivial = a pool where a parser succeeded and a binary operation ran, or error accessors ran on a non-ASCII / multi-line input; distinct by the pool.".into();
    run.assumptions = vec![
        "negative tuple components are outside the property (debug_assert documents the precondition)".into(),
        "binary operations are inherently O(|A||B|) in the number of alternatives; only the parsers and unary operations are held to the linear-time clause".into(),
        "miette's fancy handler cannot be built offline".into(),
    ];
    // (a case that does not return is found by the engine's CPU-time hang watch)
    let _ = start_watchdog;
    let _ = std::fs::remove_dir_all(current_dir());
    let _ = std::fs::create_dir_all(current_dir());
    // exhaustive short strings
    let alpha: Vec<char> = SHORT_ALPHA.chars().collect();
    let len = if cfg.scale < 0.5 { 4 } else { 5 };
    let total = gs::count_upto(alpha.len() as u64, len);
    let a2 = alpha.clone();
    let out = enumerate(
        cfg,
        "short-strings",
        move |shard, nsh| {
            let a = a2.clone();
            let mut buf = String::new();
            (0..total).filter(move |i| (*i as usize) % nsh == shard).map(move |i| {
                gs::nth_string(&a, i, &mut buf);
                vec![buf.clone()]
            })
        },
        watched,
    );
    run.absorb(out);
    run.stats.exhaustive_subspaces.push(json!({"name": "every string over the alphabet, both parsers + unary surface + self-operations", "alphabet": SHORT_ALPHA, "max_len": len, "strings": total}));
    let lim = crate::props::c05::limit_strings();
    let lr = &lim;
    let out = enumerate(cfg, "limits", move |shard, nsh| (0..lr.len()).filter(move |i| i % nsh == shard).map(move |i| vec![lr[i].clone(), lr[(i * 7 + 3) % lr.len()].clone()]), watched);
    run.absorb(out);
    let out = campaign(cfg, ID, "pools", cfg.pick(40_000, 400_000), pool_strategy, watched);
    run.absorb(out);
    risky(&mut run, cfg);
    scaling(&mut run, cfg);
    let out = campaign(cfg, ID, "generated-scaling", cfg.pick(600, 12_000), scale_strategy, check_scale);
    run.absorb(out);
    run
}

// --- supervised ("risky") cases: each runs in a child process on a 256 KiB stack --------------------
// A stack overflow or abort cannot be caught in-process; the parent turns a child killed by a signal
// into a violation with a replayable case.  Long inputs and operands with thousands of alternatives
// (recursion depth / quadratic blow-up in the number of alternatives) live here.

#[derive(Clone, Debug, serde::Serialize, serde::Deserialize)]
pub struct Risky {
    pub kind: String,
    pub n: usize,
    /// kind "pool": the input strings of one in-process case that is re-executed under supervision
    #[serde(default)]
    pub inputs: Vec<String>,
}

pub fn risky_items(cfg: &RunCfg) -> Vec<Risky> {
    let mut out = vec![];
    let big = if cfg.tier == Tier::Thorough { 150_000 } else { 30_000 };
    for (name, _, _) in scaling_families() {
        for n in [200usize, 5_000, big] {
            let n = if name.starts_with("ladder:") && n == big { big / 4 } else { n };
            out.push(Risky { kind: format!("long:{}", name), n, inputs: vec![] });
        }
    }
    let ops_n: Vec<usize> = if cfg.tier == Tier::Thorough { vec![300, 2500, 6000] } else { vec![300, 2500] };
    for fam in ["desc", "asc", "alternating", "nested", "touching", "dups", "prerelease-desc"] {
        for n in &ops_n {
            out.push(Risky { kind: format!("ops:{}", fam), n: *n, inputs: vec![] });
        }
    }
    // results fed back as operands many times (capacity / size blow-up), and both operands large
    for n in [6usize, 14, 40] {
        out.push(Risky { kind: "iterate".into(), n, inputs: vec![] });
    }
    for n in [120usize, 240] {
        out.push(Risky { kind: "both-large".into(), n, inputs: vec![] });
    }
    out
}

fn big_operand(fam: &str, n: usize) -> String {
    let mut alts: Vec<String> = vec![];
    match fam {
        "desc" => (1..=n).rev().for_each(|k| alts.push(format!("{}.0.0", k))),
        "asc" => (1..=n).for_each(|k| alts.push(format!("{}.0.0", k))),
        "alternating" => (1..=n).for_each(|k| alts.push(format!("{}.0.0", if k % 2 == 0 { k } else { 2 * n - k }))),
        "nested" => (1..=n).for_each(|k| alts.push(format!(">={}.0.0 <{}.0.0", k, 2 * n + 2 - k))),
        "touching" => (1..=n).for_each(|k| alts.push(format!(">={}.0.0 <{}.0.0", k, k + 1))),
        "dups" => (1..=n).for_each(|_| alts.push("1.2.3".to_string())),
        _ => (1..=n).rev().for_each(|k| alts.push(format!(">1.0.0-{} <=1.0.0-{}.5", k, k))),
    }
    alts.join("||")
}

/// the body of one supervised case (runs in the child, on a small stack)
pub fn risky_body(item: &Risky) -> Result<(), Failure> {
    if let Some(name) = item.kind.strip_prefix("long:") {
        let (_, unit, tail) = scaling_families().into_iter().find(|(n, _, _)| *n == name).ok_or_else(|| Failure::new("bad-replay", "unknown family".into()))?;
        let s = family_text(name, &unit, &tail, item.n);
        match g("Version::parse", &s.len(), || Version::parse(&s))? {
            Ok(v) => exercise_version("long input", &v)?,
            Err(e) => exercise_error("Version::parse", &s, &e)?,
        }
        match g("Range::parse", &s.len(), || Range::parse(&s))? {
            Ok(r) => g("long range: Display/min_version/satisfies/clone/==", &s.len(), || {
                let t = r.to_string();
                let _ = r.min_version();
                let _ = r.satisfies(&Version::from((1u8, 2u8, 3u8)));
                let _ = r.clone() == r;
                let _ = Range::parse(&t).map(|x| x == r);
            })?,
            Err(e) => exercise_error("Range::parse", &s, &e)?,
        }
        return Ok(());
    }
    if item.kind == "pool" {
        return check_pool(&item.inputs, &mut Stats::default());
    }
    if item.kind == "iterate" {
        // r = r op r / r op k, n rounds: the number of alternatives stays small, so must time and memory
        for (start, other) in [("1 || 2", ">=1.5.0 || <1.2.0"), ("1.x || >=3.0.0-rc <4 || 5.0.0", "* || 3"), (">=1.0.0 <9.0.0", "2.0.0 || 4.0.0 || 6.0.0")] {
            let (mut r, k) = match (Range::parse(start), Range::parse(other)) {
                (Ok(r), Ok(k)) => (r, k),
                _ => continue,
            };
            for round in 0..item.n {
                let next = g("repeated self-intersection / difference / intersection with a fixed operand", &(start, other, round), || {
                    let a = r.intersect(&r);
                    let b = a.as_ref().and_then(|x| x.intersect(&k)).or_else(|| a.clone());
                    let c = b.as_ref().and_then(|x| x.difference(&k)).or(b);
                    c.and_then(|x| x.intersect(&x))
                })?;
                match next {
                    Some(n) if alts(&n) <= MAX_ALTS => r = n,
                    _ => break,
                }
            }
        }
        return Ok(());
    }
    if item.kind == "both-large" {
        // many overlapping alternatives on both sides: the inherent cost is |A|*|B|; measure n vs 2n
        let mk = |n: usize| {
            let a: Vec<String> = (1..=n).map(|k| format!(">={}.0.0", k)).collect();
            let b: Vec<String> = (1..=n).map(|k| format!("<{}.0.0", 1000 + k)).collect();
            (Range::parse(a.join("||")), Range::parse(b.join("||")))
        };
        let time = |n: usize| -> Result<f64, Failure> {
            let (a, b) = match mk(n) {
                (Ok(a), Ok(b)) => (a, b),
                _ => return Ok(0.0),
            };
            let t0 = thread_cpu();
            g("operations with two many-alternative operands", &n, || {
                let _ = a.difference(&b).map(|r| r.to_string().len());
                let _ = a.intersect(&b).map(|r| r.to_string().len());
                let _ = (a.allows_any(&b), a.allows_all(&b));
            })?;
            Ok(thread_cpu() - t0)
        };
        let mut flagged = 0;
        let mut ratios = vec![];
        for _ in 0..3 {
            let (t1, t2) = (time(item.n)?, time(item.n * 2)?);
            let ratio = t2 / t1.max(1e-6);
            ratios.push(ratio);
            if t2 > 0.05 && ratio > 6.5 {
                flagged += 1;
            }
        }
        if flagged == 3 {
            return Err(Failure::new(
                "super-quadratic-set-operation",
                format!("intersect/difference/allows_* on two ranges with n overlapping alternatives each: CPU time grows by {:?} from n={} to n={} (the inherent |A|*|B| cost gives ~4, cubic ~8)", ratios, item.n, item.n * 2),
            ));
        }
        return Ok(());
    }
    let fam = item.kind.strip_prefix("ops:").unwrap_or("desc");
    let btext = big_operand(fam, item.n);
    let b = match g("Range::parse(big operand)", &item, || Range::parse(&btext))? {
        Ok(b) => b,
        Err(_) => return Ok(()),
    };
    let others: Vec<Range> = ["*", ">=2.0.0 <100.0.0", "<=1.0.0-9999", "1.0.0-7.2 || 5000.0.0 || >=3.0.0 <4.0.0-0"].iter().filter_map(|t| Range::parse(t).ok()).chain(std::iter::once(Range::any())).collect();
    for a in &others {
        g("operations with a many-alternative operand", &(item, a.to_string()), || {
            let d1 = a.difference(&b);
            let d2 = b.difference(a);
            let i1 = a.intersect(&b);
            let i2 = b.intersect(a);
            let _ = (a.allows_all(&b), b.allows_all(a), a.allows_any(&b), b.allows_any(a));
            for r in [d1, d2, i1, i2].into_iter().flatten() {
                let _ = r.min_version();
                let _ = r.to_string().len();
                let _ = r.satisfies(&Version::from((3u8, 1u8, 4u8)));
            }
        })?;
    }
    g("unary operations on a many-alternative range", &item, || {
        let _ = b.min_version();
        let _ = b.clone() == b;
        let t = b.to_string();
        let _ = Range::parse(&t).map(|x| x == b);
        let list: Vec<Version> = (0..200u64).map(|k| Version::from((k * 31 % 7000, 0u64, 0u64))).collect();
        let _ = b.max_satisfying(&list).map(|v| v.to_string());
        let _ = b.min_satisfying(&list).map(|v| v.to_string());
    })?;
    Ok(())
}

/// child entry point: exit 0 fine, 1 panic caught (message on stdout); a crash kills the process
pub fn risky_child(json: &str) -> i32 {
    let item: Risky = match serde_json::from_str(json) {
        Ok(i) => i,
        Err(_) => return 2,
    };
    let stack = if item.kind == "pool" { 8 * 1024 * 1024 } else { 256 * 1024 };
    let h = std::thread::Builder::new().stack_size(stack).spawn(move || risky_body(&item));
    match h.map(|h| h.join()) {
        Ok(Ok(Ok(()))) => 0,
        Ok(Ok(Err(f))) => {
            println!("{}", f.message);
            1
        }
        Ok(Err(_)) => {
            println!("the case panicked outside a guarded call");
            1
        }
        Err(_) => 2,
    }
}

/// after the main C06 process died: re-execute the pools that were running, each in its own child;
/// returns (pool, message) for every one that crashes or fails again
pub fn crashed_candidates() -> Vec<(Vec<String>, String)> {
    let mut out = vec![];
    if let Ok(rd) = std::fs::read_dir(current_dir()) {
        for e in rd.filter_map(|e| e.ok()) {
            if let Ok(t) = std::fs::read_to_string(e.path()) {
                if let Ok(pool) = serde_json::from_str::<Vec<String>>(&t) {
                    let item = Risky { kind: "pool".into(), n: 0, inputs: pool.clone() };
                    if let Ok(Some(m)) = run_risky_item(&item) {
                        out.push((pool, m));
                    }
                }
            }
        }
    }
    out
}

/// run one supervised case in a child process; Some(message) = violation, None = fine, Err = inconclusive
pub fn run_risky_item(item: &Risky) -> Result<Option<String>, String> {
    use std::os::unix::process::ExitStatusExt;
    let exe = std::env::current_exe().map_err(|e| e.to_string())?;
    let js = serde_json::to_string(item).unwrap();
    let mut child = std::process::Command::new(exe)
        .args(["c06-risky", &js])
        .stdout(std::process::Stdio::piped())
        .stderr(std::process::Stdio::null())
        .spawn()
        .map_err(|e| e.to_string())?;
    let t0 = Instant::now();
    loop {
        match child.try_wait().map_err(|e| e.to_string())? {
            Some(status) => {
                let mut out = String::new();
                if let Some(mut so) = child.stdout.take() {
                    use std::io::Read;
                    let _ = so.read_to_string(&mut out);
                }
                if let Some(sig) = status.signal() {
                    return Ok(Some(format!("the process was killed by signal {} (stack overflow / abort) on a 256 KiB stack", sig)));
                }
                return match status.code() {
                    Some(0) => Ok(None),
                    Some(1) => Ok(Some(out.trim().to_string())),
                    c => Err(format!("child exit code {:?}", c)),
                };
            }
            None => {
                if t0.elapsed() > Duration::from_secs(240) {
                    let _ = child.kill();
                    let _ = child.wait();
                    return Err(format!("supervised case {:?} exceeded 240 s (possible hang)", item));
                }
                std::thread::sleep(Duration::from_millis(20));
            }
        }
    }
}

pub fn risky(run: &mut PropRun, cfg: &RunCfg) {
    let items = risky_items(cfg);
    let ir = &items;
    let out = enumerate(
        cfg,
        "supervised",
        move |shard, nsh| (0..ir.len()).filter(move |i| i % nsh == shard).map(move |i| ir[i].clone()),
        |item: &Risky, st| {
            st.eval(1);
            st.class(if item.kind.starts_with("long:") { "supervised:long-input" } else { "supervised:many-alternative-operand" });
            match run_risky_item(item) {
                Ok(None) => Ok(()),
                Ok(Some(m)) => Err(Failure::new("crash-or-panic", format!("supervised case {:?}: {}", item, m))),
                Err(m) => Err(Failure::new("supervised-inconclusive", format!("{} {}", INCONCLUSIVE, m))),
            }
        },
    );
    run.absorb(out);
    run.stats.exhaustive_subspaces.push(json!({"name": "supervised cases in child processes (256 KiB stack): long inputs of every scaling family, operands with up to thousands of alternatives in 7 orders", "cases": items.len()}));
}

pub fn replay(campaign: &str, case: &Value) -> Result<(), Failure> {
    if campaign == "crashed-pool" {
        let pool: Vec<String> = serde_json::from_value(case.clone()).map_err(|e| Failure::new("bad-replay", e.to_string()))?;
        let item = Risky { kind: "pool".into(), n: 0, inputs: pool.clone() };
        return match run_risky_item(&item) {
            Ok(None) => Ok(()),
            Ok(Some(m)) => Err(Failure::new("crash-or-panic", format!("pool {:?}: {}", pool, m))),
            Err(m) => Err(Failure::new("supervised-inconclusive", format!("{} {}", INCONCLUSIVE, m))),
        };
    }
    if campaign == "supervised" {
        let item: Risky = serde_json::from_value(case.clone()).map_err(|e| Failure::new("bad-replay", e.to_string()))?;
        return match run_risky_item(&item) {
            Ok(None) => Ok(()),
            Ok(Some(m)) => Err(Failure::new("crash-or-panic", format!("supervised case {:?}: {}", item, m))),
            Err(m) => Err(Failure::new("supervised-inconclusive", format!("{} {}", INCONCLUSIVE, m))),
        };
    }
    if campaign == "scaling" {
        return Ok(()); // timing findings are re-measured by a full run, not by replay
    }
    if campaign == "generated-scaling" {
        let c: ScaleCase = serde_json::from_value(case.clone()).map_err(|e| Failure::new("bad-replay", e.to_string()))?;
        return check_scale(&c, &mut Stats::default());
    }
    let pool: Vec<String> = serde_json::from_value(case.clone()).map_err(|e| Failure::new("bad-replay", e.to_string()))?;
    let _ = gv::field;
    check_pool(&pool, &mut Stats::default())
}
