//! C04 - version precedence is the SemVer total order; Eq, Ord and Hash agree.
use crate::engine::*;
use crate::gen::version as gv;
use crate::model::version::*;
use nodejs_semver::Version;
use proptest::prelude::*;
use serde::{Deserialize, Serialize};
use serde_json::{json, Value};
use std::cmp::Ordering;
use std::collections::hash_map::DefaultHasher;
use std::hash::{Hash, Hasher};

pub const ID: &str = "C04";

fn digest(v: &Version) -> u64 {
    let mut h = DefaultHasher::new();
    v.hash(&mut h);
    h.finish()
}

#[derive(Clone, Debug, Serialize, Deserialize)]
pub struct ListCase {
    pub versions: Vec<MVersion>,
    /// build the crate value by parsing the printed text instead of a struct literal
    pub via_parse: bool,
}

fn build(v: &MVersion, via_parse: bool) -> Result<Version, Failure> {
    if via_parse {
        // every fourth version spells its numeric identifiers with a leading zero: still the same numbers
        let pad = crate::engine::hash_of(&v.text()) % 4 == 0;
        let t = if pad && v.pre.iter().chain(v.build.iter()).any(|i| matches!(i, MId::Num(_))) {
            let ids = |l: &Vec<MId>| l.iter().map(|i| match i { MId::Num(n) => format!("0{}", n), MId::Str(s) => s.clone() }).collect::<Vec<_>>().join(".");
            let mut t = format!("{}.{}.{}", v.major, v.minor, v.patch);
            if !v.pre.is_empty() {
                t.push('-');
                t.push_str(&ids(&v.pre));
            }
            if !v.build.is_empty() {
                t.push('+');
                t.push_str(&ids(&v.build));
            }
            t
        } else {
            v.text()
        };
        if t.len() <= max_len() {
            return match guard(|| Version::parse(&t)) {
                // the parsed value is compared as it is: if the parser reads a canonical text differently
                // from what it denotes, the precedence of parsed versions is wrong and that shows here
                Ok(Ok(c)) => Ok(c),
                _ => Ok(v.to_crate()),
            };
        }
    }
    Ok(v.to_crate())
}

fn class_of(a: &MVersion, b: &MVersion) -> &'static str {
    if a.tuple() != b.tuple() {
        return "tuple-differs";
    }
    match (a.is_pre(), b.is_pre()) {
        (false, false) => {
            if a.build != b.build {
                "equal-build-only"
            } else {
                "identical"
            }
        }
        (true, false) | (false, true) => "release-vs-prerelease",
        (true, true) => {
            let n = a.pre.len().min(b.pre.len());
            for i in 0..n {
                if a.pre[i] != b.pre[i] {
                    return match (&a.pre[i], &b.pre[i]) {
                        (MId::Num(_), MId::Num(_)) => "id-num-num",
                        (MId::Str(x), MId::Str(y)) => {
                            if x.eq_ignore_ascii_case(y) {
                                "id-case-only"
                            } else {
                                "id-alnum-alnum"
                            }
                        }
                        _ => "id-num-alnum",
                    };
                }
            }
            if a.pre.len() != b.pre.len() {
                "id-strict-prefix"
            } else if a.build != b.build {
                "equal-build-only"
            } else {
                "identical"
            }
        }
    }
}

pub fn check_pair(a: &MVersion, b: &MVersion, ca: &Version, cb: &Version, st: &mut Stats) -> Result<(), Failure> {
    let exp = cmp_semver(a, b);
    let got = guard(|| ca.cmp(cb)).map_err(|p| Failure::new("cmp-panics", format!("cmp({}, {}) panicked: {}", a.text(), b.text(), p)))?;
    st.eval(1);
    let cls = class_of(a, b);
    st.class(cls);
    if a.tuple() == b.tuple() {
        st.nontrivial(&(a.text(), b.text()), || json!({"a": a.text(), "b": b.text(), "expected": format!("{:?}", exp), "class": cls}));
    }
    let ctx = || format!("a={} b={}", a.text(), b.text());
    if got != exp {
        return Err(Failure::new("cmp-differs-from-semver", format!("{}: cmp={:?}, SemVer section 11 says {:?}", ctx(), got, exp)));
    }
    let rev = cb.cmp(ca);
    if rev != exp.reverse() {
        return Err(Failure::new("cmp-not-antisymmetric", format!("{}: cmp(a,b)={:?} but cmp(b,a)={:?}", ctx(), got, rev)));
    }
    if ca.partial_cmp(cb) != Some(got) {
        return Err(Failure::new("partial-cmp-disagrees", format!("{}: partial_cmp={:?} cmp={:?}", ctx(), ca.partial_cmp(cb), got)));
    }
    let ops = (ca < cb, ca <= cb, ca > cb, ca >= cb, ca == cb, ca != cb);
    let want = (
        exp == Ordering::Less,
        exp != Ordering::Greater,
        exp == Ordering::Greater,
        exp != Ordering::Less,
        exp == Ordering::Equal,
        exp != Ordering::Equal,
    );
    if ops != want {
        return Err(Failure::new(
            "operators-disagree-with-cmp",
            format!("{}: (<,<=,>,>=,==,!=)={:?}, expected {:?} for {:?}", ctx(), ops, want, exp),
        ));
    }
    if exp == Ordering::Equal && digest(ca) != digest(cb) {
        return Err(Failure::new("equal-versions-hash-differently", format!("{}: equal in precedence but hash digests differ", ctx())));
    }
    st.eval(4);
    Ok(())
}

fn check_list(c: &ListCase, st: &mut Stats) -> Result<(), Failure> {
    let vs = &c.versions;
    let cs: Vec<Version> = vs.iter().map(|v| build(v, c.via_parse)).collect::<Result<_, _>>()?;
    for i in 0..vs.len() {
        // reflexivity
        if cs[i].cmp(&cs[i]) != Ordering::Equal || cs[i] != cs[i].clone() {
            return Err(Failure::new("cmp-not-reflexive", format!("{} is not equal to itself", vs[i].text())));
        }
        for j in 0..vs.len() {
            check_pair(&vs[i], &vs[j], &cs[i], &cs[j], st)?;
        }
        // build metadata never matters
        let nb = vs[i].strip_build().to_crate();
        if nb.cmp(&cs[i]) != Ordering::Equal || nb != cs[i] || digest(&nb) != digest(&cs[i]) {
            return Err(Failure::new("build-metadata-matters", format!("{} differs from itself without build metadata", vs[i].text())));
        }
    }
    // transitivity on the crate's own answers
    for i in 0..vs.len() {
        for j in 0..vs.len() {
            for k in 0..vs.len() {
                if cs[i] <= cs[j] && cs[j] <= cs[k] && !(cs[i] <= cs[k]) {
                    return Err(Failure::new(
                        "cmp-not-transitive",
                        format!("{} <= {} <= {} but not {} <= {}", vs[i].text(), vs[j].text(), vs[k].text(), vs[i].text(), vs[k].text()),
                    ));
                }
                st.eval(1);
            }
        }
    }
    // versions as keys: a HashSet / BTreeSet / HashMap built from the list has exactly one entry per
    // precedence class (Eq, Hash and Ord agree with each other and with SemVer precedence)
    {
        use std::collections::{BTreeSet, HashMap, HashSet};
        let mut classes: Vec<&MVersion> = vec![];
        for v in vs {
            if !classes.iter().any(|c| cmp_semver(c, v) == Ordering::Equal) {
                classes.push(v);
            }
        }
        let hs: HashSet<Version> = cs.iter().cloned().collect();
        let bs: BTreeSet<Version> = cs.iter().cloned().collect();
        let mut hm: HashMap<Version, usize> = HashMap::new();
        for (i, c) in cs.iter().enumerate() {
            hm.insert(c.clone(), i);
        }
        if hs.len() != classes.len() || bs.len() != classes.len() || hm.len() != classes.len() {
            return Err(Failure::new(
                "collections-disagree-with-precedence",
                format!(
                    "[{}]: {} precedence classes but HashSet has {}, BTreeSet {}, HashMap {} entries",
                    vs.iter().map(|v| v.text()).collect::<Vec<_>>().join(", "),
                    classes.len(),
                    hs.len(),
                    bs.len(),
                    hm.len()
                ),
            ));
        }
        for c in &cs {
            if !hs.contains(c) || !bs.contains(c) || !hm.contains_key(c) {
                return Err(Failure::new("collections-disagree-with-precedence", format!("{} is not found in a set built from a list that contains it", c)));
            }
            let cl = c.clone();
            if cl != *c || digest(&cl) != digest(c) || cl.cmp(c) != Ordering::Equal {
                return Err(Failure::new("clone-differs", format!("clone of {} is not equal to it", c)));
            }
        }
        st.eval(3);
    }
    // sorting / max / min
    let mut sorted = cs.clone();
    sorted.sort();
    let ms: Vec<MVersion> = sorted.iter().map(MVersion::from_crate).collect();
    for w in ms.windows(2) {
        if cmp_semver(&w[0], &w[1]) == Ordering::Greater {
            return Err(Failure::new("sort-inconsistent", format!("sort() put {} before {}", w[0].text(), w[1].text())));
        }
    }
    let mut t1: Vec<String> = ms.iter().map(|m| m.text()).collect();
    let mut t2: Vec<String> = vs.iter().map(|m| m.text()).collect();
    t1.sort();
    t2.sort();
    if t1 != t2 {
        return Err(Failure::new("sort-not-a-permutation", format!("sorted {:?} vs input {:?}", t1, t2)));
    }
    if let (Some(mx), Some(mn)) = (cs.iter().max(), cs.iter().min()) {
        let (mx, mn) = (MVersion::from_crate(mx), MVersion::from_crate(mn));
        for v in vs {
            if cmp_semver(v, &mx) == Ordering::Greater {
                return Err(Failure::new("max-inconsistent", format!("max()={} but {} is higher", mx.text(), v.text())));
            }
            if cmp_semver(v, &mn) == Ordering::Less {
                return Err(Failure::new("min-inconsistent", format!("min()={} but {} is lower", mn.text(), v.text())));
            }
        }
    }
    st.eval(3);
    Ok(())
}

/// the exhaustive small scope: {0,1}^3 x prerelease lists of length <= 2 over 7 identifiers x build {none,b}
pub fn small_scope() -> Vec<MVersion> {
    let ids = vec![
        MId::Num(0),
        MId::Num(1),
        MId::Num(10),
        MId::Str("a".into()),
        MId::Str("A".into()),
        MId::Str("a0".into()),
        MId::Str("-".into()),
    ];
    let mut pres: Vec<Vec<MId>> = vec![vec![]];
    for a in &ids {
        pres.push(vec![a.clone()]);
    }
    for a in &ids {
        for b in &ids {
            pres.push(vec![a.clone(), b.clone()]);
        }
    }
    let mut out = vec![];
    for t in 0..8u64 {
        for p in &pres {
            for b in 0..2 {
                out.push(MVersion {
                    major: t >> 2 & 1,
                    minor: t >> 1 & 1,
                    patch: t & 1,
                    pre: p.clone(),
                    build: if b == 1 { vec![MId::Str("b".into())] } else { vec![] },
                });
            }
        }
    }
    out
}

pub fn bit_scope(k: u32) -> Vec<MVersion> {
    let m = max_int();
    let mut vals = vec![0u64, 1, (1u64 << k) - 1, 1u64 << k, (1u64 << k) + 1];
    vals.retain(|v| *v <= m);
    vals.sort();
    vals.dedup();
    let mut out = vec![];
    for a in &vals {
        for b in &vals {
            for c in &vals {
                out.push(MVersion::new(*a, *b, *c));
            }
        }
    }
    out
}

pub fn run(cfg: &RunCfg) -> PropRun {
    let mut run = PropRun::default();
    run.rule = "pairs/triples/lists of versions: (a) every ordered pair of the 912-version small scope and every ordered triple of a 114-version stratified subset, enumerated; (b) proptest lists of 3..6 related versions (mutations of a base: bump a field, add/drop/change an identifier, numeric<->alphanumeric, case flip, build only) built by struct literal or by parsing. Oracle: SemVer section 11 comparator on the model + order laws. Non-trivial = ordered pair with equal major.minor.patch (decided by release-vs-prerelease, identifiers or build only); distinct by the two canonical texts.".into();
    run.assumptions = vec!["numeric identifiers < 2^64 (the property's stated domain)".into(), "DefaultHasher with fixed keys".into()];

    if let Err(e) = crate::golden::check_cmp_golden(&mut run.stats) {
        run.inconclusive.push(e);
        return run;
    }
    // (a) exhaustive pairs
    let scope = small_scope();
    let cscope: Vec<Version> = scope.iter().map(|v| v.to_crate()).collect();
    let n = scope.len();
    let out = enumerate(
        cfg,
        "small-scope-pairs",
        |shard, nsh| (0..n).filter(move |i| i % nsh == shard),
        |i, st| {
            for j in 0..n {
                check_pair(&scope[*i], &scope[j], &cscope[*i], &cscope[j], st)?;
            }
            Ok(())
        },
    );
    run.absorb(out);
    run.stats.exhaustive_subspaces.push(json!({"name": "small-scope ordered pairs", "versions": n, "pairs": n * n}));

    // exhaustive triples of a stratified subset (every 8th version)
    let sub: Vec<usize> = (0..n).step_by(8).collect();
    let m = sub.len();
    let out = enumerate(
        cfg,
        "small-scope-triples",
        |shard, nsh| (0..m).filter(move |i| i % nsh == shard),
        |i, st| {
            let a = &cscope[sub[*i]];
            for &j in &sub {
                for &k in &sub {
                    let (b, c) = (&cscope[j], &cscope[k]);
                    if a <= b && b <= c && !(a <= c) {
                        return Err(Failure::new(
                            "cmp-not-transitive",
                            format!("{} <= {} <= {} but not first <= last", scope[sub[*i]].text(), scope[j].text(), scope[k].text()),
                        ));
                    }
                    if a == b && b == c && a != c {
                        return Err(Failure::new("eq-not-transitive", format!("{} {} {}", scope[sub[*i]].text(), scope[j].text(), scope[k].text())));
                    }
                }
            }
            st.eval((m * m) as u64);
            Ok(())
        },
    );
    run.absorb(out);
    run.stats.exhaustive_subspaces.push(json!({"name": "small-scope ordered triples (transitivity)", "versions": m, "triples": m * m * m}));

    // bit-boundary scope: for every k, all ordered pairs of versions whose fields come from
    // {0, 1, 2^k-1, 2^k, 2^k+1}: carries, truncations and packed comparisons show here
    let out = enumerate(
        cfg,
        "bit-boundary-pairs",
        |shard, nsh| (1u32..=50).filter(move |k| (*k as usize) % nsh == shard),
        |k, st| {
            let vs = bit_scope(*k);
            let cs: Vec<Version> = vs.iter().map(|v| v.to_crate()).collect();
            for i in 0..vs.len() {
                for j in 0..vs.len() {
                    check_pair(&vs[i], &vs[j], &cs[i], &cs[j], st)?;
                }
            }
            Ok(())
        },
    );
    run.absorb(out);
    run.stats.exhaustive_subspaces.push(json!({"name": "bit-boundary pairs: fields from {0,1,2^k-1,2^k,2^k+1}, k=1..50, all ordered pairs per k", "versions_per_k": 125, "pairs": 50 * 125 * 125}));

    // (b) random related lists
    let total = cfg.pick(300_000, 3_000_000);
    let out = campaign(
        cfg,
        ID,
        "related-lists",
        total,
        || (3usize..=6).prop_flat_map(|n| (gv::related(n), any::<bool>())).prop_map(|(versions, via_parse)| ListCase { versions, via_parse }),
        check_list,
    );
    run.absorb(out);
    run
}

pub fn replay(campaign: &str, case: &Value) -> Result<(), Failure> {
    let mut st = Stats::default();
    match campaign {
        "related-lists" => {
            let c: ListCase = serde_json::from_value(case.clone()).map_err(|e| Failure::new("bad-replay", e.to_string()))?;
            check_list(&c, &mut st)
        }
        "bit-boundary-pairs" => {
            let k: u32 = serde_json::from_value(case.clone()).map_err(|e| Failure::new("bad-replay", e.to_string()))?;
            let vs = bit_scope(k);
            for a in &vs {
                for b in &vs {
                    check_pair(a, b, &a.to_crate(), &b.to_crate(), &mut st)?;
                }
            }
            Ok(())
        }
        "small-scope-pairs" => {
            let i: usize = serde_json::from_value(case.clone()).map_err(|e| Failure::new("bad-replay", e.to_string()))?;
            let scope = small_scope();
            for j in 0..scope.len() {
                check_pair(&scope[i], &scope[j], &scope[i].to_crate(), &scope[j].to_crate(), &mut st)?;
            }
            Ok(())
        }
        _ => Err(Failure::new("bad-replay", format!("unknown campaign {}", campaign))),
    }
}
