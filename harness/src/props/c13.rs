//! C13 - printing a range and parsing it back returns an equivalent range.
use crate::engine::*;
use crate::ev;
use crate::findings;
use crate::gen::range_ast::*;
use crate::gen::ranges::*;
use crate::model::interval::IModel;
use crate::model::probes;
use crate::model::version::*;
use crate::props::alg::*;
use crate::props::c01::{F_EMPTY, F_HYPHEN, F_WILD};
use nodejs_semver::Range;
use proptest::prelude::*;
use serde::{Deserialize, Serialize};
use serde_json::{json, Value};

pub const ID: &str = "C13";
pub const F_D11: &str = "C13/bound-component-exceeds-max";

#[derive(Clone, Debug, Serialize, Deserialize)]
pub enum Case {
    Text(String),
    Ast(RangeAst),
    Expr(Expr),
}

/// `from_parse`: R was obtained from Range::parse (then R1 == R is required)
pub fn check_range(origin: &str, r: &Range, from_parse: bool, st: &mut Stats) -> Result<(), Failure> {
    let p1 = guard(|| r.to_string()).map_err(|p| Failure::new("display-panics", format!("{}: Display panicked: {}", origin, p)))?;
    let im = IModel::from_display(&p1).ok_or_else(|| Failure::new("display-unreadable", format!("{} cannot read {:?}", INCONCLUSIVE, p1)))?;
    st.eval(1);
    if im.max_component() > max_int() {
        // D11: desugaring / flipping produced a component MAX+1, which prints but is not a parseable number
        st.class("printed-component-exceeds-MAX");
        if findings::is_open(F_D11) {
            st.known(F_D11);
            return Ok(());
        }
    }
    let r1 = match guard(|| Range::parse(&p1)) {
        Ok(Ok(x)) => x,
        Ok(Err(e)) => return Err(Failure::new("printed-range-rejected", format!("{}: prints as {:?} which Range::parse rejects: {}", origin, p1, e))),
        Err(p) => return Err(Failure::new("reparse-panics", format!("{}: Range::parse({:?}) panicked: {}", origin, p1, p))),
    };
    {
        use std::hash::{Hash, Hasher};
        let dg = |x: &Range| {
            let mut h = std::collections::hash_map::DefaultHasher::new();
            x.hash(&mut h);
            h.finish()
        };
        let c = r.clone();
        if c != *r || dg(&c) != dg(r) || c.to_string() != p1 {
            return Err(Failure::new("clone-differs", format!("{}: the clone of {:?} is not equal to it / hashes or prints differently", origin, p1)));
        }
        if r1 == *r && dg(&r1) != dg(r) {
            return Err(Failure::new("equal-ranges-hash-differently", format!("{}: {:?} and its re-parse are == but hash differently", origin, p1)));
        }
    }
    if from_parse && r1 != *r {
        return Err(Failure::new("reparsed-range-not-equal", format!("{}: prints as {:?}, which parses to a range that is != the original (it prints as {:?})", origin, p1, r1.to_string())));
    }
    let pv = probes::probes(&im.bound_versions(), &[]);
    for v in &pv {
        let cv = v.to_crate();
        st.eval(1);
        let (s0, s1) = (r.satisfies(&cv), r1.satisfies(&cv));
        if s0 != s1 {
            return Err(Failure::new("roundtrip-changes-satisfies", format!("{}: {:?} re-parsed: satisfies({}) was {} and is now {}", origin, p1, v.text(), s0, s1)));
        }
        if v.build.is_empty() {
            if let Ok(Ok(e)) = guard(|| Range::parse(format!("={}", v.text()))) {
                let (b0, b1) = (r.allows_any(&e), r1.allows_any(&e));
                if b0 != b1 {
                    return Err(Failure::new("roundtrip-changes-bounds", format!("{}: {:?} re-parsed: {} was within bounds: {}, now: {}", origin, p1, v.text(), b0, b1)));
                }
                // the printed form means what it says
                if b0 != im.in_bounds(v) {
                    return Err(Failure::new("printed-form-misstates-bounds", format!("{}: prints as {:?} but {} within bounds (allows_any(={})) is {}", origin, p1, v.text(), v.text(), b0)));
                }
            }
        }
    }
    if let Err(m) = display_survives_failing_writer(r, &p1, &|s| Range::parse(s).map(|x| x == *r || x.to_string() == p1).unwrap_or(false)) {
        return Err(Failure::new("display-depends-on-history", format!("{}: {}", origin, m)));
    }
    // stable after one round
    let p2 = r1.to_string();
    match guard(|| Range::parse(&p2)) {
        Ok(Ok(r2)) => {
            let p3 = r2.to_string();
            if p3 != p2 {
                return Err(Failure::new("print-not-stable", format!("{}: {:?} -> {:?} -> {:?}", origin, p1, p2, p3)));
            }
        }
        _ => return Err(Failure::new("print-not-stable", format!("{}: second printed form {:?} does not parse", origin, p2))),
    }
    // serde
    let js = serde_json::to_string(r).map_err(|e| Failure::new("serde-serialize-fails", format!("{}: {}", origin, e)))?;
    if js != serde_json::to_string(&p1).unwrap() {
        return Err(Failure::new("serde-json-not-printed-string", format!("{}: JSON {} is not the quoted printed form {:?}", origin, js, p1)));
    }
    match serde_json::from_str::<Range>(&js) {
        Ok(d) => {
            if d != r1 {
                return Err(Failure::new("serde-roundtrip-differs", format!("{}: {} deserialises to {:?}, parse gives {:?}", origin, js, d.to_string(), r1.to_string())));
            }
        }
        Err(e) => return Err(Failure::new("serde-roundtrip-fails", format!("{}: {} does not deserialise: {}", origin, js, e))),
    }
    // the other front ends of serde_json (Value tree, reader, fully \u-escaped text)
    let val = serde_json::to_value(r).map_err(|e| Failure::new("serde-serialize-fails", format!("{}: to_value: {}", origin, e)))?;
    let escaped = format!("\"{}\"", p1.chars().map(|c| format!("\\u{:04x}", c as u32)).collect::<String>());
    let routes: Vec<(&str, Result<Range, serde_json::Error>)> = vec![
        ("from_value", serde_json::from_value::<Range>(val)),
        ("from_reader", serde_json::from_reader::<_, Range>(js.as_bytes())),
        ("from_str(escaped)", serde_json::from_str::<Range>(&escaped)),
    ];
    for (route, res) in routes {
        match res {
            Ok(d) if d == r1 => {}
            Ok(d) => return Err(Failure::new("serde-roundtrip-differs", format!("{}: via {}: {:?} vs {:?}", origin, route, d.to_string(), r1.to_string()))),
            Err(e) => return Err(Failure::new("serde-roundtrip-fails", format!("{}: serde_json::{} of {} fails: {}", origin, route, js, e))),
        }
    }
    st.eval(3);
    let two_sided = im.ivs.iter().any(|i| i.lo.is_some() && i.hi.is_some() && i.lo.as_ref().map(|x| &x.0) != i.hi.as_ref().map(|x| &x.0));
    let tagged = im.bound_versions().iter().any(|v| v.is_pre());
    if im.ivs.len() >= 2 {
        st.class("multi-alternative");
    }
    if two_sided {
        st.class("two-sided");
    }
    if tagged {
        st.class("tagged-bound");
    }
    if im.bound_versions().iter().any(|v| v.minor == max_int() || v.patch == max_int()) {
        st.class("MAX-upper(<=1 / <=1.2)");
    }
    if im.ivs.len() >= 2 || two_sided || tagged {
        st.nontrivial(&p1, || json!({"origin": origin, "printed": p1}));
    }
    Ok(())
}

pub fn check_case(c: &Case, st: &mut Stats) -> Result<(), Failure> {
    match c {
        Case::Text(t) => match guard(|| Range::parse(t)) {
            Ok(Ok(r)) => {
                st.class("from-parse");
                check_range(&format!("parse({:?})", t), &r, true, st)
            }
            Ok(Err(_)) => {
                st.discarded += 1;
                Ok(())
            }
            Err(p) => Err(Failure::new("parse-panics", format!("Range::parse({:?}) panicked: {}", t, p))),
        },
        Case::Ast(a) => check_case(&Case::Text(a.render()), st),
        Case::Expr(e) => {
            let v = ev!(eval(e), st);
            match &v.range {
                Some(r) => {
                    st.class(if e.depth() == 0 { "from-parse" } else { "from-set-operation" });
                    check_range(&e.show(), r, e.depth() == 0, st)
                }
                None => {
                    st.discarded += 1;
                    Ok(())
                }
            }
        }
    }
}

pub fn ast_strategy() -> BoxedStrategy<Case> {
    let wild_open = findings::is_open(F_WILD);
    let hyph_open = findings::is_open(F_HYPHEN);
    let empty_open = findings::is_open(F_EMPTY);
    pool_strategy()
        .prop_flat_map(move |pool| {
            let mut cfg = GenCfg::standard(pool);
            // the C01 finding classes (npm semantics) are no reason to exclude these spellings here:
            // this property compares the crate with itself
            let _ = (wild_open, hyph_open, empty_open);
            cfg.allow_misplaced_wild = true;
            cfg.allow_lowerless_hyphen = true;
            cfg.allow_empty_alt = true;
            cfg.max_toks = 2;
            range_ast_with(cfg)
        })
        .prop_map(Case::Ast)
        .boxed()
}

pub fn expr_strategy() -> BoxedStrategy<Case> {
    vpool().prop_flat_map(|pool| expr(pool, 3, 3)).prop_map(Case::Expr).boxed()
}

fn known_probe(run: &mut PropRun) {
    if findings::is_open(F_D11) {
        let m = max_int();
        let mut bad = vec![];
        for t in [format!("~1.{}", m), format!(">{}", m), format!("^{}.1.1", m), format!("1.{}.x", m)] {
            if let Ok(Ok(r)) = guard(|| Range::parse(&t)) {
                let p = r.to_string();
                let same = matches!(guard(|| Range::parse(&p)), Ok(Ok(r1)) if r1 == r);
                if !same {
                    bad.push(format!("'{}' -> '{}'", t, p));
                }
            }
        }
        if !bad.is_empty() {
            run.known_lines.push(format!("{}: ranges whose desugared bound has a component MAX_SAFE_INTEGER+1 print but do not re-parse to an equal range: {}", F_D11, bad.join("; ")));
        }
    }
}

pub fn run(cfg: &RunCfg) -> PropRun {
    let mut run = PropRun::default();
    run.rule = "ranges from Range::parse of AST-rendered texts (all grammar forms incl. <=1 / <=1.2 with their MAX_SAFE_INTEGER uppers, -0 uppers, exact, one/two-sided, multi-alternative) and from intersect/difference expression trees of depth <= 3 over the adjacent-version pool. Oracle: to_string() must re-parse; at ~40 probes per bound satisfies() and bounds membership (allows_any(=v)) are unchanged and agree with what the printed text says; ranges from parse compare == after the round trip; the second print is a fixed point; serde JSON is the quoted print and deserialises to the same range. Non-trivial = >=2 alternatives, or a two-sided interval, or a tagged bound; distinct by printed text.".into();
    run.assumptions = vec!["printed bounds with a component above MAX_SAFE_INTEGER are the listed finding D11 (excluded, counted)".into()];
    known_probe(&mut run);
    // every token of the single-token table and every structured interval / two-alternative union of the chain
    let mut texts: Vec<String> = crate::props::c01::token_table()
        .into_iter()
        .map(|(op, p)| RangeAst::single(Alt::Simples { toks: vec![Tok::Cmp { op, blanks: 0, p }], seps: vec![] }).render())
        .collect();
    let ivs = crate::props::c09::structured_intervals();
    for (i, a) in ivs.iter().enumerate() {
        texts.push(a.clone());
        for b in ivs.iter().skip(i % 5).step_by(5) {
            texts.push(format!("{} || {}", a, b));
        }
    }
    let tr = &texts;
    let out = enumerate(
        cfg,
        "tables",
        move |shard, nsh| (0..tr.len()).filter(move |i| i % nsh == shard).map(move |i| tr[i].clone()),
        |t: &String, st| check_case(&Case::Text(t.clone()), st),
    );
    run.absorb(out);
    run.stats.exhaustive_subspaces.push(json!({"name": "single-token table (3060 tokens) + structured intervals and two-alternative unions of the adjacent chain", "texts": texts.len()}));
    let out = campaign(cfg, ID, "ast", cfg.pick(200_000, 2_500_000), ast_strategy, check_case);
    run.absorb(out);
    let out = campaign(cfg, ID, "algebra", cfg.pick(200_000, 2_500_000), expr_strategy, check_case);
    run.absorb(out);
    run.stats.excluded_known = run.stats.known_hits.get(F_D11).copied().unwrap_or(0);
    run
}

pub fn replay(campaign: &str, case: &Value) -> Result<(), Failure> {
    let bad = |e: serde_json::Error| Failure::new("bad-replay", e.to_string());
    if campaign == "tables" {
        let t: String = serde_json::from_value(case.clone()).map_err(bad)?;
        return check_case(&Case::Text(t), &mut Stats::default());
    }
    let c: Case = serde_json::from_value(case.clone()).map_err(bad)?;
    check_case(&c, &mut Stats::default())
}
