//! shared helpers for the set-algebra properties C07-C10, C13, C15
use crate::engine::*;
use crate::gen::ranges::*;
use crate::model::interval::{IModel, Interval};
use crate::model::probes;
use crate::model::version::*;
use nodejs_semver::{Range, Version};
use std::cmp::Ordering;

pub struct Val {
    pub range: Option<Range>,
    pub model: IModel,
    pub text: String,
}

pub enum Ev<T> {
    Ok(T),
    Discard,
    Fail(Failure),
}

pub fn val_of(range: Option<Range>) -> Result<Val, Failure> {
    match range {
        None => Ok(Val { range: None, model: IModel::empty(), text: "∅".into() }),
        Some(r) => {
            let text = guard(|| r.to_string()).map_err(|p| Failure::new("display-panics", format!("Display of a range panicked: {}", p)))?;
            let model = IModel::from_display(&text).ok_or_else(|| Failure::new("display-unreadable", format!("{} cannot read the printed range {:?}", INCONCLUSIVE, text)))?;
            Ok(Val { range: Some(r), model, text })
        }
    }
}

pub fn eval(e: &Expr) -> Ev<Val> {
    match eval_crate(e) {
        Ok(r) => match val_of(r) {
            Ok(v) => Ev::Ok(v),
            Err(f) => Ev::Fail(f),
        },
        Err(EvalErr::Leaf(_)) => Ev::Discard,
        Err(EvalErr::Panic(p)) => Ev::Fail(Failure::new("operation-panics", format!("evaluating {} panicked: {}", e.show(), p))),
    }
}

#[macro_export]
macro_rules! ev {
    ($e:expr, $st:expr) => {
        match $e {
            $crate::props::alg::Ev::Ok(v) => v,
            $crate::props::alg::Ev::Discard => {
                $st.discarded += 1;
                return Ok(());
            }
            $crate::props::alg::Ev::Fail(f) => return Err(f),
        }
    };
}

pub fn sat(v: &Val, cv: &Version) -> bool {
    v.range.as_ref().map(|r| r.satisfies(cv)).unwrap_or(false)
}

pub fn probes_of(vals: &[&Val], extra: &[MVersion]) -> Vec<MVersion> {
    let mut b = vec![];
    for v in vals {
        b.extend(v.model.bound_versions());
    }
    probes::probes(&b, extra)
}

pub fn in_domain(v: &MVersion) -> bool {
    let m = max_int();
    v.major <= m && v.minor <= m && v.patch <= m
}

pub fn isect(a: &Interval, b: &Interval) -> Interval {
    let lo = match (&a.lo, &b.lo) {
        (None, x) | (x, None) => x.clone(),
        (Some((va, ia)), Some((vb, ib))) => match cmp_semver(va, vb) {
            Ordering::Greater => Some((va.clone(), *ia)),
            Ordering::Less => Some((vb.clone(), *ib)),
            Ordering::Equal => Some((va.clone(), *ia && *ib)),
        },
    };
    let hi = match (&a.hi, &b.hi) {
        (None, x) | (x, None) => x.clone(),
        (Some((va, ia)), Some((vb, ib))) => match cmp_semver(va, vb) {
            Ordering::Less => Some((va.clone(), *ia)),
            Ordering::Greater => Some((vb.clone(), *ib)),
            Ordering::Equal => Some((va.clone(), *ia && *ib)),
        },
    };
    Interval { lo, hi }
}

/// exact: some version within the bounds of both models (the least one of some interval pair)
pub fn common_point(a: &IModel, b: &IModel) -> Option<MVersion> {
    for x in &a.ivs {
        for y in &b.ivs {
            if let Some(m) = isect(x, y).least_in_bounds() {
                if in_domain(&m) {
                    return Some(m);
                }
            }
        }
    }
    None
}

/// candidate points of `a` that may lie outside `b`: least point of each interval of `a`, and the
/// points just above every upper bound / at every lower-bound gap of `b`
pub fn points_outside(a: &IModel, b: &IModel) -> Option<MVersion> {
    let mut cands = vec![];
    for x in &a.ivs {
        if let Some(m) = x.least_in_bounds() {
            cands.push(m);
        }
        if let Some((h, true)) = &x.hi {
            cands.push(h.strip_build());
        }
    }
    for y in &b.ivs {
        if let Some((h, incl)) = &y.hi {
            cands.push(if *incl { h.successor() } else { h.strip_build() });
        }
    }
    cands.into_iter().find(|c| in_domain(c) && a.in_bounds(c) && !b.in_bounds(c))
}

/// do the two models share a bound version (a tie)?
pub fn share_bound(a: &IModel, b: &IModel) -> bool {
    let bv = b.bound_versions();
    a.bound_versions().iter().any(|x| bv.iter().any(|y| cmp_semver(x, y) == Ordering::Equal))
}

/// does an endpoint of one lie strictly inside the other?
pub fn endpoint_inside(a: &IModel, b: &IModel) -> bool {
    a.bound_versions().iter().any(|x| b.in_bounds(x)) || b.bound_versions().iter().any(|y| a.in_bounds(y))
}

/// do some interval of `a` and some interval of `b` overlap bound-wise: the larger lower bound lies
/// below the smaller upper bound, or they are the same version and both inclusive?  (Ranges that
/// merely touch at an excluded endpoint do not overlap; ranges sharing an included endpoint do.)
pub fn boundwise_overlap(a: &IModel, b: &IModel) -> bool {
    for x in &a.ivs {
        for y in &b.ivs {
            let i = isect(x, y);
            let ok = match (&i.lo, &i.hi) {
                (Some((l, li)), Some((h, hi))) => match cmp_semver(l, h) {
                    Ordering::Less => true,
                    Ordering::Equal => *li && *hi,
                    Ordering::Greater => false,
                },
                _ => true,
            };
            if ok {
                return true;
            }
        }
    }
    false
}
