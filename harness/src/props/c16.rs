//! C16 - Version::diff names the release-type difference, symmetrically.
use crate::engine::*;
use crate::gen::version as gv;
use crate::model::version::*;
use nodejs_semver::Version;
use serde_json::{json, Value};
use std::cmp::Ordering;

pub const ID: &str = "C16";

pub fn scope() -> Vec<MVersion> {
    let pres: Vec<Vec<MId>> = vec![vec![], vec![MId::Num(0)], vec![MId::Num(1)], vec![MId::Str("a".into())]];
    let mut out = vec![];
    for t in 0..27u64 {
        for p in &pres {
            for b in 0..2 {
                out.push(MVersion {
                    major: t / 9,
                    minor: t / 3 % 3,
                    patch: t % 3,
                    pre: p.clone(),
                    build: if b == 1 { vec![MId::Str("b".into())] } else { vec![] },
                });
            }
        }
    }
    out
}

pub fn check_pair(a: &MVersion, b: &MVersion, st: &mut Stats) -> Result<(), Failure> {
    let (ca, cb): (Version, Version) = (a.to_crate(), b.to_crate());
    let ctx = || format!("a={} b={}", a.text(), b.text());
    let got = guard(|| ca.diff(&cb)).map_err(|p| Failure::new("diff-panics", format!("{}: {}", ctx(), p)))?;
    let rev = guard(|| cb.diff(&ca)).map_err(|p| Failure::new("diff-panics", format!("{}: {}", ctx(), p)))?;
    let exp = diff_model(a, b);
    st.eval(1);
    let got_s = got.map(|d| d.to_string());
    let cls = match exp {
        None => "equal".to_string(),
        Some(e) => {
            let c = cmp_semver(a, b);
            let (hi, lo) = if c == Ordering::Greater { (a, b) } else { (b, a) };
            if lo.is_pre() && !hi.is_pre() { format!("pre-to-release:{}", e) } else { e.to_string() }
        }
    };
    st.class(&cls);
    if exp.is_some() {
        st.nontrivial(&(a.text(), b.text()), || json!({"a": a.text(), "b": b.text(), "expected": exp}));
    }
    if got != rev {
        return Err(Failure::new("diff-not-symmetric", format!("{}: a.diff(b)={:?} b.diff(a)={:?}", ctx(), got, rev)));
    }
    let eq = cmp_semver(a, b) == Ordering::Equal;
    if got.is_none() != eq {
        return Err(Failure::new("diff-none-iff-equal", format!("{}: diff={:?} but precedence-equal={}", ctx(), got, eq)));
    }
    if got_s.as_deref() != exp {
        return Err(Failure::new("diff-differs-from-node", format!("{}: diff={:?}, node-semver reports {:?}", ctx(), got_s, exp)));
    }
    // build metadata never influences it
    let (na, nb) = (a.strip_build().to_crate(), b.strip_build().to_crate());
    if na.diff(&nb) != got || ca.diff(&nb) != got || na.diff(&cb) != got {
        return Err(Failure::new("diff-build-matters", format!("{}: answer changes when build metadata is stripped", ctx())));
    }
    st.eval(3);
    Ok(())
}

pub fn run(cfg: &RunCfg) -> PropRun {
    let mut run = PropRun::default();
    run.rule = "ordered pairs of versions: (a) all 46,656 ordered pairs over fields {0,1,2}^3 x prerelease {none,[0],[1],[a]} x build {none,b}, enumerated; (b) proptest pairs of related versions (fields up to MAX_SAFE_INTEGER, identifier lists up to 6). Oracle: model port of node-semver 7.6 diff (validated against golden node answers) + symmetry + None<=>precedence-equal + build invariance + Display string. Non-trivial = the pair differs in precedence (expected Some); distinct by the two canonical texts.".into();
    run.assumptions = vec!["node-semver 7.6.2 functions/diff.js is the reference for 'the release type node-semver reports'".into()];
    if let Err(e) = crate::golden::check_diff_golden(&mut run.stats) {
        run.inconclusive.push(e);
        return run;
    }
    let sc = scope();
    let n = sc.len();
    let out = enumerate(
        cfg,
        "small-scope-pairs",
        |shard, nsh| (0..n).filter(move |i| i % nsh == shard),
        |i, st| {
            for j in 0..n {
                check_pair(&sc[*i], &sc[j], st)?;
            }
            Ok(())
        },
    );
    run.absorb(out);
    run.stats.exhaustive_subspaces.push(json!({"name": "diff small scope ordered pairs", "versions": n, "pairs": n * n}));
    let total = cfg.pick(1_000_000, 10_000_000);
    let out = campaign(cfg, ID, "related-pairs", total, || gv::related(2), |vs: &Vec<MVersion>, st| check_pair(&vs[0], &vs[1], st));
    run.absorb(out);
    run
}

pub fn replay(campaign: &str, case: &Value) -> Result<(), Failure> {
    let mut st = Stats::default();
    let bad = |e: serde_json::Error| Failure::new("bad-replay", e.to_string());
    match campaign {
        "related-pairs" => {
            let vs: Vec<MVersion> = serde_json::from_value(case.clone()).map_err(bad)?;
            check_pair(&vs[0], &vs[1], &mut st)
        }
        "small-scope-pairs" => {
            let i: usize = serde_json::from_value(case.clone()).map_err(bad)?;
            let sc = scope();
            for j in 0..sc.len() {
                check_pair(&sc[i], &sc[j], &mut st)?;
            }
            Ok(())
        }
        _ => Err(Failure::new("bad-replay", format!("unknown campaign {}", campaign))),
    }
}
