//! C12 - printing a version and parsing it back returns the same version.
use crate::engine::*;
use crate::findings;
use crate::gen::strings as gs;
use crate::gen::version as gv;
use crate::model::version::*;
use crate::props::c05::{fields_text, same5};
use nodejs_semver::Version;
use proptest::prelude::*;
use serde::{Deserialize, Serialize};
use serde_json::{json, Value};

pub const ID: &str = "C12";
pub const F_D12: &str = "C12/hyphenless-at-max-length";

#[derive(Clone, Debug, Serialize, Deserialize)]
pub struct Case {
    pub v: MVersion,
    pub sp: gv::Spelling,
    /// pad the text to exactly this many bytes with build characters (0 = no padding)
    pub pad_to: usize,
    /// start from the struct literal instead of parsing the spelled text
    pub literal: bool,
}

pub fn case_text(c: &Case) -> String {
    let t = gv::spell(&c.v, &c.sp);
    if c.pad_to > 0 && c.sp.trail_blanks.is_empty() {
        if let Some(p) = gs::pad_to(&t, c.pad_to, !c.v.build.is_empty(), "z") {
            return p;
        }
    }
    t
}

pub fn check_value(origin: &str, v: &Version, loose: bool, st: &mut Stats) -> Result<(), Failure> {
    let p = guard(|| v.to_string()).map_err(|e| Failure::new("display-panics", format!("{}: to_string() panicked: {}", origin, e)))?;
    st.eval(1);
    if p.len() > max_len() {
        // printed form longer than MAX_LENGTH: only reachable from a hyphenless spelling (finding D12)
        if findings::is_open(F_D12) {
            st.known(F_D12);
            return Ok(());
        }
    }
    let w = match guard(|| Version::parse(&p)) {
        Ok(Ok(w)) => w,
        Ok(Err(e)) => {
            return Err(Failure::new("printed-form-rejected", format!("{}: prints as {:?} ({} bytes) which Version::parse rejects: {}", origin, p, p.len(), e)))
        }
        Err(e) => return Err(Failure::new("reparse-panics", format!("{}: parse({:?}) panicked: {}", origin, p, e))),
    };
    if !same5(v, &w) {
        return Err(Failure::new("roundtrip-changes-fields", format!("{}: {} prints as {:?} which parses to {}", origin, fields_text(v), p, fields_text(&w))));
    }
    if let Err(m) = display_survives_failing_writer(v, &p, &|s| Version::parse(s).map(|w| same5(v, &w)).unwrap_or(false)) {
        return Err(Failure::new("display-depends-on-history", format!("{}: {}", origin, m)));
    }
    if v.is_prerelease() == v.pre_release.is_empty() || w.is_prerelease() != v.is_prerelease() {
        return Err(Failure::new("is-prerelease-wrong", format!("{}: is_prerelease() = {} with pre_release = {:?}", origin, v.is_prerelease(), v.pre_release)));
    }
    let p2 = w.to_string();
    if p2 != p {
        return Err(Failure::new("print-not-fixed-point", format!("{}: prints {:?}, re-parsed value prints {:?}", origin, p, p2)));
    }
    // serde
    let js = guard(|| serde_json::to_string(v)).map_err(|e| Failure::new("serde-panics", format!("{}: {}", origin, e)))?;
    let js = js.map_err(|e| Failure::new("serde-serialize-fails", format!("{}: {}", origin, e)))?;
    let want = serde_json::to_string(&p).unwrap();
    if js != want {
        return Err(Failure::new("serde-json-not-printed-string", format!("{}: JSON is {} but the printed string is {}", origin, js, want)));
    }
    match serde_json::from_str::<Version>(&js) {
        Ok(d) => {
            if !same5(v, &d) {
                return Err(Failure::new("serde-roundtrip-changes-fields", format!("{}: {} -> {} -> {}", origin, fields_text(v), js, fields_text(&d))));
            }
        }
        Err(e) => return Err(Failure::new("serde-roundtrip-fails", format!("{}: {} does not deserialize: {}", origin, js, e))),
    }
    // the same JSON through the other front ends of serde_json: a Value tree, a reader, and text
    // in which every character is \u-escaped (none of them can lend a borrowed &str)
    let val = serde_json::to_value(v).map_err(|e| Failure::new("serde-serialize-fails", format!("{}: to_value: {}", origin, e)))?;
    let escaped = format!("\"{}\"", p.chars().map(|c| format!("\\u{:04x}", c as u32)).collect::<String>());
    let routes: Vec<(&str, Result<Version, serde_json::Error>)> = vec![
        ("from_value", serde_json::from_value::<Version>(val)),
        ("from_reader", serde_json::from_reader::<_, Version>(js.as_bytes())),
        ("from_str(escaped)", serde_json::from_str::<Version>(&escaped)),
    ];
    for (route, r) in routes {
        match r {
            Ok(d) if same5(v, &d) => {}
            Ok(d) => return Err(Failure::new("serde-roundtrip-changes-fields", format!("{}: via {}: {} -> {}", origin, route, fields_text(v), fields_text(&d)))),
            Err(e) => return Err(Failure::new("serde-roundtrip-fails", format!("{}: serde_json::{} of {} fails: {}", origin, route, js, e))),
        }
    }
    st.eval(3);
    if v.is_prerelease() || !v.build.is_empty() || loose {
        st.nontrivial(&p, || json!({"origin": origin, "printed": p}));
    }
    Ok(())
}

pub fn check_case(c: &Case, st: &mut Stats) -> Result<(), Failure> {
    if c.literal {
        let t = c.v.text();
        if t.len() > max_len() {
            st.discarded += 1;
            return Ok(());
        }
        st.class("struct-literal");
        return check_value(&format!("literal {}", t), &c.v.to_crate(), false, st);
    }
    let text = case_text(c);
    if text.len() > max_len() {
        st.discarded += 1;
        return Ok(());
    }
    let v = match guard(|| Version::parse(&text)) {
        Ok(Ok(v)) => v,
        _ => {
            // whether this spelling is accepted is C05's business
            st.class("spelling-not-accepted");
            st.discarded += 1;
            return Ok(());
        }
    };
    let loose = !c.sp.is_canonical();
    if loose {
        st.class("loose-spelling");
    } else {
        st.class("canonical-spelling");
    }
    if gv::used_hyphenless(&c.v, &c.sp) {
        st.class("hyphenless-prerelease");
    }
    if text.len() + 1 >= max_len() {
        st.class("at-length-limit");
    }
    if c.v.major.max(c.v.minor).max(c.v.patch) == max_int() {
        st.class("at-integer-limit");
    }
    if c.v.pre.iter().any(|i| matches!(i, MId::Str(s) if s.bytes().all(|b| b == b'-'))) {
        st.class("hyphen-only-identifier");
    }
    check_value(&format!("parse({:?})", text), &v, loose, st)
}

pub fn case_strategy() -> BoxedStrategy<Case> {
    let l = max_len();
    (
        prop_oneof![2 => gv::small_mversion(), 2 => gv::mversion()],
        gv::spelling(),
        prop_oneof![8 => Just(0usize), 1 => Just(l), 1 => Just(l - 1)],
        prop_oneof![4 => Just(false), 1 => Just(true)],
    )
        .prop_map(|(v, sp, pad_to, literal)| Case { v, sp, pad_to, literal })
        .boxed()
}

fn known_probe(run: &mut PropRun) {
    // D12: a MAX_LENGTH-byte version with hyphenless prerelease prints one byte longer
    if findings::is_open(F_D12) {
        let s = format!("1.2.3{}", "a".repeat(max_len() - 5));
        if let Ok(Ok(v)) = guard(|| Version::parse(&s)) {
            let p = v.to_string();
            if p.len() > max_len() && Version::parse(&p).is_err() {
                run.known_lines.push(format!(
                    "{}: a {}-byte version with a hyphenless prerelease ('1.2.3' + 'a'x{}) prints as {} bytes and is rejected on re-parse",
                    F_D12,
                    s.len(),
                    max_len() - 5,
                    p.len()
                ));
            }
        }
    }
}

pub fn run(cfg: &RunCfg) -> PropRun {
    let mut run = PropRun::default();
    run.rule = "versions obtained by Version::parse of generated spellings (canonical, leading zeros, v/V prefix, blanks, hyphenless prerelease, padding to exactly MAX_LENGTH / MAX_LENGTH-1 bytes, components at MAX_SAFE_INTEGER, hyphen-only / numeric-looking / mixed identifiers) or built as struct literals with canonical identifiers. Oracle: to_string() re-parses to the same five fields, is a fixed point, serde JSON is exactly the quoted printed string and deserialises to the same five fields. Non-trivial = version with prerelease or build part, or loosely spelled; distinct by printed text.".into();
    run.assumptions = vec!["struct literals whose text exceeds MAX_LENGTH are outside the domain (discarded)".into()];
    known_probe(&mut run);
    let out = campaign(cfg, ID, "roundtrip", cfg.pick(1_000_000, 10_000_000), case_strategy, check_case);
    run.absorb(out);
    // every accepted string of the C05 limit family as well
    let lim = crate::props::c05::limit_strings();
    let lr = &lim;
    let out = enumerate(
        cfg,
        "limit-family",
        move |shard, nsh| (0..lr.len()).filter(move |i| i % nsh == shard).map(move |i| lr[i].clone()),
        |s: &String, st| match guard(|| Version::parse(s)) {
            Ok(Ok(v)) => check_value(&format!("parse({:?})", s), &v, true, st),
            _ => Ok(()),
        },
    );
    run.absorb(out);
    run
}

pub fn replay(campaign: &str, case: &Value) -> Result<(), Failure> {
    let bad = |e: serde_json::Error| Failure::new("bad-replay", e.to_string());
    let mut st = Stats::default();
    match campaign {
        "roundtrip" => check_case(&serde_json::from_value(case.clone()).map_err(bad)?, &mut st),
        "limit-family" | "text" => {
            let s: String = serde_json::from_value(case.clone()).map_err(bad)?;
            match guard(|| Version::parse(&s)) {
                Ok(Ok(v)) => check_value(&format!("parse({:?})", s), &v, true, &mut st),
                _ => Ok(()),
            }
        }
        _ => Err(Failure::new("bad-replay", format!("unknown campaign {}", campaign))),
    }
}
