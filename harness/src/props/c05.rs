//! C05 - Version::parse accepts only whole well-formed version strings, faithfully.
use crate::engine::*;
use crate::gen::strings as gs;
use crate::gen::version as gv;
use crate::model::version::*;
use nodejs_semver::Version;
use proptest::prelude::*;
use proptest::sample::select;
use proptest::strategy::ValueTree;
use serde_json::{json, Value};

pub const ID: &str = "C05";

pub fn fields_text(v: &Version) -> String {
    format!("{{major:{}, minor:{}, patch:{}, pre:{:?}, build:{:?}}}", v.major, v.minor, v.patch, v.pre_release, v.build)
}

pub fn same5(a: &Version, b: &Version) -> bool {
    a.major == b.major && a.minor == b.minor && a.patch == b.patch && a.pre_release == b.pre_release && a.build == b.build
}

pub fn check_string(s: &String, st: &mut Stats) -> Result<(), Failure> {
    let verdict = classify(s);
    let res = guard(|| Version::parse(s));
    st.eval(1);
    let shown = || format!("{:?}", s);
    // a panic is not an acceptance; C06 owns panics.  For a MUST string it is still a C05 failure.
    let res = match res {
        Ok(r) => r.ok(),
        Err(p) => {
            if let Verdict::Must(_) = verdict {
                return Err(Failure::new("must-accept-panics", format!("parse({}) panicked: {}", shown(), p)));
            }
            None
        }
    };
    let at_len = s.len() + 2 >= max_len() && s.len() <= max_len() + 4;
    if at_len {
        st.class("at-length-limit");
    }
    match (&verdict, &res) {
        (Verdict::Must(d), Some(v)) => {
            st.class("accepted-strict");
            if d.major.max(d.minor).max(d.patch) + 1 >= max_int() {
                st.class("at-integer-limit");
            }
            st.nontrivial(s, || json!({"input": s, "class": "accepted-strict"}));
            if !fields_match(d, v) {
                return Err(Failure::new("fields-not-faithful", format!("parse({}) = {} but the text denotes {:?}", shown(), fields_text(v), d)));
            }
        }
        (Verdict::Must(d), None) => {
            return Err(Failure::new("canonical-rejected", format!("parse({}) failed although it is a canonical version {:?}", shown(), d)));
        }
        (Verdict::May(d), Some(v)) => {
            st.class("accepted-loose");
            st.nontrivial(s, || json!({"input": s, "class": "accepted-loose"}));
            if !fields_match(d, v) {
                return Err(Failure::new("fields-not-faithful", format!("parse({}) = {} but the text denotes {:?}", shown(), fields_text(v), d)));
            }
        }
        (Verdict::May(_), None) => st.class("loose-spelling-rejected(allowed)"),
        (Verdict::Reject, Some(v)) => {
            return Err(Failure::new(
                "junk-accepted",
                format!("parse({}) = Ok({}) although the whole input is not a version (trailing/embedded junk, out-of-range component or over-long)", shown(), v),
            ));
        }
        (Verdict::Reject, None) => {
            if s.len() <= 64 && has_valid_proper_prefix(s) {
                st.class("rejected-with-valid-prefix");
                st.nontrivial(s, || json!({"input": s, "class": "rejected-with-valid-prefix"}));
            } else {
                st.class("rejected-other");
            }
        }
    }
    // the other two entry points agree with Version::parse
    let via_fromstr = guard(|| s.parse::<Version>()).ok().and_then(|r| r.ok());
    let js = serde_json::to_string(s).unwrap();
    let via_serde = guard(|| serde_json::from_str::<Version>(&js)).ok().and_then(|r| r.ok());
    st.eval(2);
    for (name, other) in [("FromStr", &via_fromstr), ("serde", &via_serde)] {
        let same = match (&res, other) {
            (Some(a), Some(b)) => same5(a, b),
            (None, None) => true,
            _ => false,
        };
        if !same {
            return Err(Failure::new(
                "entry-points-disagree",
                format!("Version::parse({}) = {:?} but {} gives {:?}", shown(), res.as_ref().map(fields_text), name, other.as_ref().map(fields_text)),
            ));
        }
    }
    Ok(())
}

pub const SHORT_ALPHA: &str = "019.-+av ";

pub fn base_versions(seed: u64, n: usize) -> Vec<String> {
    let mut r = crate::tools::runner(seed ^ 0x5eed_ba5e);
    let strat = prop_oneof![3 => gv::small_mversion(), 1 => gv::mversion()];
    let mut out = vec![
        "1.2.3".to_string(),
        "1.2.3-a".into(),
        "1.2.3+b".into(),
        "1.2.3-a.b+c.d".into(),
        "0.0.0-0".into(),
        "10.20.30-rc.1+build.5".into(),
        format!("{m}.{m}.{m}", m = max_int()),
    ];
    while out.len() < n {
        let v = strat.new_tree(&mut r).unwrap().current();
        let t = v.text();
        if t.len() <= 40 {
            out.push(t);
        }
    }
    out
}

/// the limit family: lengths MAX_LENGTH-2..+4 with different endings, numbers at the integer limits
pub fn limit_strings() -> Vec<String> {
    let mut out = vec![];
    let nums = gs::limit_numbers();
    for k in [30usize, 63, 64, 65, 66, 100, 120] {
        out.push(format!("1.2.3-{}", vec!["0"; k].join(".")));
        out.push(format!("1.2.3+{}", vec!["x"; k].join(".")));
    }
    for n in &nums {
        for pos in 0..3 {
            let mut c = vec!["1".to_string(), "2".to_string(), "3".to_string()];
            c[pos] = n.clone();
            let core = c.join(".");
            for pre in ["", "v", " ", "V "] {
                for suf in ["", "-a", "+b", ".4", " ", "-", "x"] {
                    out.push(format!("{}{}{}", pre, core, suf));
                }
            }
        }
        // as prerelease / build identifiers
        out.push(format!("1.2.3-{}", n));
        out.push(format!("1.2.3+{}", n));
        out.push(format!("1.2.3-a.{}.b", n));
        // a big / overflowing numeric identifier next to small numeric ones, in both lists
        out.push(format!("1.2.3-{}.1", n));
        out.push(format!("1.2.3-1.{}.2", n));
        out.push(format!("1.2.3-{}.{}", n, n));
        out.push(format!("1.2.3+{}.7", n));
        out.push(format!("1.2.3-{}.0+{}.1", n, n));
        out.push(format!("1.2.3-0.{}+5", n));
        out.push(format!("{n}.{n}.{n}", n = n));
    }
    for target in gs::lengths_near_limit() {
        for base in ["1.2.3", "1.2.3-a", "1.2.3-a.b+c", "1.2.3+b", "v1.2.3", " 1.2.3", "1.2.3alpha", "1.2.3alpha+b", "01.02.03-00"] {
            for last in ["z", "9", "-", "é", "💥", ".", " ", "\u{161}", "+"] {
                if let Some(s) = gs::pad_to(base, target, base.contains('+'), last) {
                    out.push(s);
                }
            }
        }
        // long prerelease instead of long build
        out.push(format!("1.2.3-{}", "a".repeat(target.saturating_sub(6))));
        out.push(format!("1.2.3{}", "a".repeat(target.saturating_sub(5))));
        out.push(format!("{}.2.3", "1".repeat(target.saturating_sub(4))));
        out.push(format!("1.2.3-{}", "a.".repeat(target.saturating_sub(6) / 2)));
        // over-long (or just fitting) through zero padding of a component
        for pos in 0..3 {
            let mut c = vec!["1".to_string(), "2".to_string(), "3".to_string()];
            c[pos] = format!("{}{}", "0".repeat(target.saturating_sub(5)), c[pos]);
            out.push(c.join("."));
        }
        out.push(format!("{}1.{}2.{}3", "0".repeat(target / 3), "0".repeat(target / 3), "0".repeat(target / 3)));
        out.push("é".repeat(target / 2));
        // many short identifiers: the count, not the length, is large
        let k = target.saturating_sub(6) / 2;
        out.push(format!("1.2.3-{}", vec!["a"; k].join(".")));
        out.push(format!("1.2.3+{}", vec!["0"; k].join(".")));
        out.push(format!("1.2.3-{}+{}", vec!["7"; k / 2].join("."), vec!["b"; k / 2].join(".")));
        out.push(" ".repeat(target));
        out.push(format!("{}1.2.3", " ".repeat(target.saturating_sub(5))));
    }
    out
}

#[derive(Clone, Debug)]
pub enum Edit {
    Del(usize),
    Ins(usize, char),
    Rep(usize, char),
}

pub fn apply_edits(s: &str, edits: &[Edit]) -> String {
    let mut chars: Vec<char> = s.chars().collect();
    for e in edits {
        match e {
            Edit::Del(i) => {
                if !chars.is_empty() {
                    let k = i % chars.len();
                    chars.remove(k);
                }
            }
            Edit::Ins(i, c) => {
                let k = i % (chars.len() + 1);
                chars.insert(k, *c);
            }
            Edit::Rep(i, c) => {
                if !chars.is_empty() {
                    let k = i % chars.len();
                    chars[k] = *c;
                }
            }
        }
    }
    chars.into_iter().collect()
}

pub fn edit() -> BoxedStrategy<Edit> {
    prop_oneof![
        (0usize..300).prop_map(Edit::Del),
        (0usize..300, select(gs::edit_alphabet())).prop_map(|(i, c)| Edit::Ins(i, c)),
        (0usize..300, select(gs::edit_alphabet())).prop_map(|(i, c)| Edit::Rep(i, c)),
    ]
    .boxed()
}

/// random spelled versions with 0..=2 edits
pub fn random_text() -> BoxedStrategy<String> {
    (
        prop_oneof![2 => gv::small_mversion(), 2 => gv::mversion()],
        gv::spelling(),
        prop_oneof![3 => Just(vec![]), 3 => proptest::collection::vec(edit(), 1..=2)],
    )
        .prop_map(|(v, sp, edits)| apply_edits(&gv::spell(&v, &sp), &edits))
        .boxed()
}

/// an edit near the start or the end of the text, from the characters that matter there
pub fn edge_edit() -> BoxedStrategy<Edit> {
    let ch = select(vec!['v', 'V', ' ', '\t', '-', '+', '.', '0', '1', 'a', '=', '\n']);
    // positions 0..2 from the start, or (encoded as 1000+k) k from the end
    let pos = prop_oneof![3 => 0usize..3, 2 => (0usize..3).prop_map(|k| 1000 + k)];
    prop_oneof![
        2 => (pos.clone(), ch.clone()).prop_map(|(i, c)| Edit::Ins(i, c)),
        1 => (pos.clone(), ch).prop_map(|(i, c)| Edit::Rep(i, c)),
        1 => pos.prop_map(Edit::Del),
    ]
    .boxed()
}

fn apply_edge_edits(s: &str, edits: &[Edit]) -> String {
    // translate the 1000+k encoding into an index counted from the end
    let mut cur = s.to_string();
    for e in edits {
        let n = cur.chars().count();
        let fix = |i: usize, ins: bool| {
            if i >= 1000 {
                let k = i - 1000;
                if ins {
                    n.saturating_sub(k)
                } else {
                    n.saturating_sub(k + 1)
                }
            } else {
                i
            }
        };
        let e2 = match e {
            Edit::Ins(i, c) => Edit::Ins(fix(*i, true).min(n), *c),
            Edit::Rep(i, c) => Edit::Rep(fix(*i, false), *c),
            Edit::Del(i) => Edit::Del(fix(*i, false)),
        };
        // apply_edits reduces indices modulo the length; ours are already in range
        cur = apply_edits(&cur, &[e2]);
    }
    cur
}

/// (prime, text): `prime` is one spelling of a version, `text` another spelling of the SAME version with
/// 0..=2 edits at its edges.  Parsing `prime` first must not influence the verdict on `text`
/// (no answer may depend on the call history: caches, memoised last results, thread-local state).
pub fn primed_text() -> BoxedStrategy<(String, String)> {
    (
        prop_oneof![3 => gv::small_mversion(), 1 => gv::mversion()],
        gv::spelling(),
        gv::spelling(),
        prop_oneof![1 => Just(vec![]), 4 => proptest::collection::vec(edge_edit(), 1..=2)],
    )
        .prop_map(|(v, sp1, sp2, edits)| (gv::spell(&v, &sp1), apply_edge_edits(&gv::spell(&v, &sp2), &edits)))
        .boxed()
}

pub fn run_domains<F>(cfg: &RunCfg, id: &str, run: &mut PropRun, check: F)
where
    F: Fn(&String, &mut Stats) -> Result<(), Failure> + Sync,
{
    // (a) exhaustive short strings
    let alpha: Vec<char> = SHORT_ALPHA.chars().collect();
    let len = match cfg.tier {
        Tier::Quick => 7,
        Tier::Thorough => 8,
    };
    let len = if cfg.scale < 0.5 { 6 } else { len };
    let total = gs::count_upto(alpha.len() as u64, len);
    let a2 = alpha.clone();
    let out = enumerate(
        cfg,
        "short-strings",
        move |shard, nsh| {
            let a = a2.clone();
            let mut buf = String::new();
            (0..total).filter(move |i| (*i as usize) % nsh == shard).map(move |i| {
                gs::nth_string(&a, i, &mut buf);
                buf.clone()
            })
        },
        &check,
    );
    run.absorb(out);
    run.stats.exhaustive_subspaces.push(json!({"name": "every string over the alphabet", "alphabet": SHORT_ALPHA, "max_len": len, "strings": total}));

    // (b) every single edit of N canonical versions
    let nb = cfg.pick(600, 4000) as usize;
    let bases = base_versions(cfg.seed, nb);
    let ealpha = gs::edit_alphabet();
    let br = &bases;
    let ea = &ealpha;
    let out = enumerate(
        cfg,
        "single-edits",
        move |shard, nsh| (0..br.len()).filter(move |i| i % nsh == shard).flat_map(move |i| gs::single_edits(&br[i], ea).into_iter().chain(std::iter::once(br[i].clone()))),
        &check,
    );
    run.absorb(out);
    run.stats.exhaustive_subspaces.push(json!({"name": "all single edits (delete/insert/replace/append) of generated canonical versions", "bases": nb, "edit_alphabet_size": ealpha.len()}));

    // (c) limits
    let lim = limit_strings();
    let lr = &lim;
    let out = enumerate(cfg, "limits", move |shard, nsh| (0..lr.len()).filter(move |i| i % nsh == shard).map(move |i| lr[i].clone()), &check);
    run.absorb(out);
    run.stats.exhaustive_subspaces.push(json!({"name": "length / integer limit family", "strings": lim.len()}));

    // (d) random spelled versions with edits, token soup
    let out = campaign(cfg, id, "random-text", cfg.pick(1_000_000, 10_000_000), random_text, &check);
    run.absorb(out);
    let out = campaign(cfg, id, "token-soup", cfg.pick(100_000, 2_000_000), || gs::soup(12), &check);
    run.absorb(out);
    // (e) history independence: parse a sibling spelling first, then judge the text as usual
    let out = campaign(cfg, id, "primed-text", cfg.pick(1_000_000, 10_000_000), primed_text, |c: &(String, String), st: &mut Stats| {
        let _ = guard(|| Version::parse(&c.0).is_ok());
        let _ = guard(|| nodejs_semver::Range::parse(&c.0).is_ok());
        st.class("primed-with-sibling-spelling");
        check(&c.1, st)
    });
    run.absorb(out);
    // (f) very long inputs (up to 3 MB), named by (shape, length)
    let lens = gs::huge_lengths();
    let lr = &lens;
    let out = enumerate(
        cfg,
        "huge-inputs",
        move |shard, nsh| (0..lr.len() * gs::HUGE_SHAPES).filter(move |i| i % nsh == shard).map(move |i| (i % gs::HUGE_SHAPES, lr[i / gs::HUGE_SHAPES])),
        |c: &(usize, usize), st: &mut Stats| {
            st.class("huge-input");
            check(&gs::huge_input(c.0, c.1), st)
        },
    );
    run.absorb(out);
}

pub fn run(cfg: &RunCfg) -> PropRun {
    let mut run = PropRun::default();
    run.rule = "strings fed to Version::parse / FromStr / serde: (a) every string up to length 7 (quick) / 8 (thorough) over the 9-symbol alphabet \"019.-+av \" enumerated; (b) every single edit of generated canonical versions over a 58-character alphabet (ASCII token classes, control and multi-byte characters, characters whose low byte is ASCII); (c) a length/integer limit family (MAX_LENGTH-2..+4, MAX_SAFE_INTEGER-1..+1, u64::MAX, 2^64); (d) proptest spelled versions with 0..2 edits and token soup; (e) primed pairs: one spelling of a version is parsed first, then another spelling of the same version with 0..2 edits at its edges is judged (the verdict may not depend on the call history); (f) 9 shapes of very long inputs at 34 lengths up to 3 MB (both sides of 2^9..2^20). Oracle: independent three-class recogniser (MUST accept with exactly the denoted fields / MAY accept (blanks, v prefix, hyphenless prerelease) / MUST reject). Non-trivial = accepted, or rejected although a proper prefix is a canonical version; distinct by input string.".into();
    run.assumptions = vec![
        "surrounding blanks, a leading v/V (+blanks) and a prerelease written without '-' are treated as MAY-accept: the statement leaves their acceptance open".into(),
        "an all-digit identifier with leading zeros may be read as number or as text".into(),
    ];
    run_domains(cfg, ID, &mut run, check_string);
    run
}

pub fn replay(campaign: &str, case: &Value) -> Result<(), Failure> {
    let bad = |e: serde_json::Error| Failure::new("bad-replay", e.to_string());
    if campaign == "primed-text" {
        let (prime, s): (String, String) = serde_json::from_value(case.clone()).map_err(bad)?;
        let _ = guard(|| Version::parse(&prime).is_ok());
        let _ = guard(|| nodejs_semver::Range::parse(&prime).is_ok());
        return check_string(&s, &mut Stats::default());
    }
    if campaign == "huge-inputs" {
        let (shape, n): (usize, usize) = serde_json::from_value(case.clone()).map_err(bad)?;
        return check_string(&gs::huge_input(shape, n), &mut Stats::default());
    }
    let s: String = serde_json::from_value(case.clone()).map_err(bad)?;
    check_string(&s, &mut Stats::default())
}
