//! C11 - min_version returns the least version satisfying the range, or None if none.
use crate::engine::*;
use crate::ev;
use crate::findings;
use crate::gen::range_ast::*;
use crate::gen::ranges::*;
use crate::model::interval::IModel;
use crate::model::probes;
use crate::model::version::*;
use crate::props::alg::*;
use crate::props::c01::{F_EMPTY, F_HYPHEN, F_WILD};
use nodejs_semver::Range;
use proptest::prelude::*;
use serde::{Deserialize, Serialize};
use serde_json::{json, Value};
use std::cmp::Ordering;

pub const ID: &str = "C11";

#[derive(Clone, Debug, Serialize, Deserialize)]
pub enum Case {
    Text(String),
    Ast(RangeAst),
    Expr(Expr),
}

pub fn check_range(origin: &str, r: &Range, st: &mut Stats) -> Result<(), Failure> {
    let text = r.to_string();
    let im = IModel::from_display(&text).ok_or_else(|| Failure::new("display-unreadable", format!("{} cannot read {:?}", INCONCLUSIVE, text)))?;
    let got = guard(|| r.min_version()).map_err(|p| Failure::new("min-version-panics", format!("{} = {:?}: min_version panicked: {}", origin, text, p)))?;
    st.eval(1);
    // candidate witnesses: the model's exact least satisfying version of every interval, plus probes
    let mut cands: Vec<MVersion> = im.ivs.iter().filter_map(|i| i.least_satisfying()).collect();
    let exact = im.least_satisfying();
    cands.extend(probes::probes(&im.bound_versions(), &[]));
    // classes
    let first_lower_empty = {
        // the interval holding the smallest lower bound admits nothing
        let mut idx: Option<usize> = None;
        for (k, i) in im.ivs.iter().enumerate() {
            idx = match idx {
                None => Some(k),
                Some(j) => {
                    let a = im.ivs[j].least_in_bounds_or_lower();
                    let b = i.least_in_bounds_or_lower();
                    Some(if cmp_semver(&b, &a) == Ordering::Less { k } else { j })
                }
            };
        }
        idx.map(|j| im.ivs[j].least_satisfying().is_none()).unwrap_or(false)
    };
    let excl = im.ivs.iter().any(|i| matches!(&i.lo, Some((_, false))));
    let unb = im.ivs.iter().any(|i| i.lo.is_none());
    if first_lower_empty {
        st.class("alternative-with-smallest-lower-bound-admits-nothing");
    }
    if excl {
        st.class("exclusive-lower-bound");
    }
    if unb {
        st.class("lower-unbounded");
    }
    if im.ivs.len() > 1 {
        st.class("multi-alternative");
    }
    st.class(if got.is_some() { "answer-some" } else { "answer-none" });
    if first_lower_empty || excl || unb {
        st.nontrivial(&text, || json!({"range": text, "origin": origin, "min_version": got.as_ref().map(|v| v.to_string()), "model_least": exact.as_ref().map(|v| v.text())}));
    }
    match &got {
        Some(m) => {
            let ok = guard(|| r.satisfies(m)).map_err(|p| Failure::new("satisfies-panics", format!("{:?}.satisfies({}): {}", text, m, p)))?;
            if !ok {
                return Err(Failure::new("min-version-does-not-satisfy", format!("{} = {:?}: min_version() = {} does not satisfy the range", origin, text, m)));
            }
            let mm = MVersion::from_crate(m);
            for w in &cands {
                st.eval(1);
                if cmp_semver(w, &mm) == Ordering::Less && r.satisfies(&w.to_crate()) {
                    return Err(Failure::new("min-version-not-least", format!("{} = {:?}: min_version() = {} but the lower version {} satisfies the range", origin, text, m, w.text())));
                }
            }
        }
        None => {
            for w in &cands {
                st.eval(1);
                if r.satisfies(&w.to_crate()) {
                    return Err(Failure::new("min-version-none-but-satisfiable", format!("{} = {:?}: min_version() = None but {} satisfies the range", origin, text, w.text())));
                }
            }
        }
    }
    Ok(())
}

pub fn check_case(c: &Case, st: &mut Stats) -> Result<(), Failure> {
    match c {
        Case::Text(t) => match guard(|| Range::parse(t)) {
            Ok(Ok(r)) => check_range(&format!("parse({:?})", t), &r, st),
            Ok(Err(_)) => {
                st.discarded += 1;
                Ok(())
            }
            Err(p) => Err(Failure::new("parse-panics", format!("Range::parse({:?}) panicked: {}", t, p))),
        },
        Case::Ast(a) => check_case(&Case::Text(a.render()), st),
        Case::Expr(e) => {
            let v = ev!(eval(e), st);
            match &v.range {
                Some(r) => check_range(&e.show(), r, st),
                None => {
                    st.discarded += 1;
                    Ok(())
                }
            }
        }
    }
}

pub fn ast_strategy() -> BoxedStrategy<Case> {
    let wild_open = findings::is_open(F_WILD);
    let hyph_open = findings::is_open(F_HYPHEN);
    let empty_open = findings::is_open(F_EMPTY);
    pool_strategy()
        .prop_flat_map(move |pool| {
            let pool: Vec<u64> = pool.into_iter().map(|x| if x > 11 { x } else { x % 3 }).collect();
            let mut cfg = GenCfg::standard(pool);
            // the C01 finding classes (npm semantics) are no reason to exclude these spellings here:
            // this property compares the crate with itself
            let _ = (wild_open, hyph_open, empty_open);
            cfg.allow_misplaced_wild = true;
            cfg.allow_lowerless_hyphen = true;
            cfg.allow_empty_alt = true;
            cfg.pre_weight = 6;
            cfg.max_alts = 4;
            cfg.max_toks = 2;
            range_ast_with(cfg)
        })
        .prop_map(Case::Ast)
        .boxed()
}

pub fn expr_strategy() -> BoxedStrategy<Case> {
    vpool().prop_flat_map(|pool| prop_oneof![2 => leaf(pool.clone(), 4), 1 => expr_with_any(pool, 2, 3)]).prop_map(Case::Expr).boxed()
}

pub fn fixed_texts() -> Vec<String> {
    [
        ">1.0.0 <1.0.1", "<0.0.0-0 || >=2.0.0", ">1.0.0 <=1.0.1-0", ">1.0.0 <1.0.1-0", ">1.0.0 <1.0.1-5", ">=2.0.0 || <0.0.0-0", "<0.0.0-beta", "<0.0.1-beta",
        ">1.0.0-a <1.0.0-a.0", ">1.0.0-a <=1.0.0-a.0", ">1.2.3 <1.2.4 || >=3.0.0", "*", ">1.0.0", ">1.0.0-0", "<0.0.0", "<=0.0.0-0", ">0.0.0-0 <0.0.0",
        ">1.2.900719925474099", ">=1.0.0-0 <1.0.0", ">1.0.0-rc <2.0.0-0",
    ]
    .iter()
    .map(|s| s.to_string())
    .collect()
}

pub fn run(cfg: &RunCfg) -> PropRun {
    let mut run = PropRun::default();
    run.rule = "ranges from (a) the AST generator (1..4 alternatives in any order, tilde/caret/x/hyphen, prerelease bounds, small pools so alternatives collide), (b) algebra leaves/results over an adjacent-version pool (exclusive lower bounds directly under the upper bound, unbounded-below alternatives that are empty or prerelease-only), (c) a fixed list of the statement's named shapes. Oracle: witness search against the crate's own satisfies(): Some(m) must satisfy; no candidate below m may satisfy; None => no candidate satisfies. Candidates = the model's exact least satisfying version of every interval (discrete-order argument) + ~40 boundary probes per bound. Non-trivial = the alternative with the smallest lower bound admits nothing, or a lower bound is exclusive, or a lower side is unbounded; distinct by printed range.".into();
    run.assumptions = vec!["a disagreement between the model and the crate's satisfies() about a witness is C01/C03's business: only the crate's satisfies() decides here".into()];
    let ft = fixed_texts();
    let fr = &ft;
    let out = enumerate(cfg, "named-shapes", move |shard, nsh| (0..fr.len()).filter(move |i| i % nsh == shard).map(move |i| Case::Text(fr[i].clone())), check_case);
    run.absorb(out);
    let ivs = crate::props::c09::structured_intervals();
    let n = ivs.len();
    let ir = &ivs;
    let out = enumerate(
        cfg,
        "structured-unions",
        move |shard, nsh| (0..n).filter(move |i| i % nsh == shard).flat_map(move |i| (0..=n).map(move |j| if j == n { ir[i].clone() } else { format!("{} || {}", ir[i], ir[j]) })),
        |t: &String, st| check_case(&Case::Text(t.clone()), st),
    );
    run.absorb(out);
    run.stats.exhaustive_subspaces.push(json!({"name": "every single interval and every ordered two-alternative union over an adjacent 6-version chain (all bound kinds)", "ranges": n * (n + 1)}));
    let out = campaign(cfg, ID, "ast", cfg.pick(300_000, 3_000_000), ast_strategy, check_case);
    run.absorb(out);
    let out = campaign(cfg, ID, "algebra", cfg.pick(300_000, 3_000_000), expr_strategy, check_case);
    run.absorb(out);
    run
}

pub fn replay(campaign: &str, case: &Value) -> Result<(), Failure> {
    let bad = |e: serde_json::Error| Failure::new("bad-replay", e.to_string());
    if campaign == "structured-unions" {
        let t: String = serde_json::from_value(case.clone()).map_err(bad)?;
        return check_case(&Case::Text(t), &mut Stats::default());
    }
    let c: Case = serde_json::from_value(case.clone()).map_err(bad)?;
    check_case(&c, &mut Stats::default())
}
