//! C07 - intersect computes exactly the set intersection of two ranges.
use crate::engine::*;
use crate::ev;
use crate::gen::ranges::*;
use crate::model::version::*;
use crate::props::alg::*;
use proptest::prelude::*;
use serde::{Deserialize, Serialize};
use serde_json::{json, Value};

pub const ID: &str = "C07";

#[derive(Clone, Debug, Serialize, Deserialize)]
pub struct PairCase {
    pub a: Expr,
    pub b: Expr,
    pub extra: Vec<MVersion>,
}

pub fn pair_strategy(depth: u32, max_alts_b: usize) -> BoxedStrategy<PairCase> {
    vpool()
        .prop_flat_map(move |pool| (expr_with_any(pool.clone(), depth, 3), expr_with_any(pool.clone(), depth, max_alts_b), extra(pool)))
        .prop_map(|(a, b, extra)| PairCase { a, b, extra })
        .boxed()
}

pub fn check_pair(c: &PairCase, st: &mut Stats) -> Result<(), Failure> {
    let a = ev!(eval(&c.a), st);
    let b = ev!(eval(&c.b), st);
    let (ra, rb) = match (&a.range, &b.range) {
        (Some(x), Some(y)) => (x, y),
        _ => {
            st.class("operand-empty(discarded)");
            st.discarded += 1;
            return Ok(());
        }
    };
    let ctx = || format!("A = {} = {:?}, B = {} = {:?}", c.a.show(), a.text, c.b.show(), b.text);
    let ab = val_of(guard(|| ra.intersect(rb)).map_err(|p| Failure::new("intersect-panics", format!("{}: intersect panicked: {}", ctx(), p)))?)?;
    let ba = val_of(guard(|| rb.intersect(ra)).map_err(|p| Failure::new("intersect-panics", format!("{}: B.intersect(A) panicked: {}", ctx(), p)))?)?;
    let aa = val_of(guard(|| ra.intersect(ra)).map_err(|p| Failure::new("intersect-panics", format!("{}: A.intersect(A) panicked: {}", ctx(), p)))?)?;
    // same call twice, same answer (no hidden state)
    let again = guard(|| ra.intersect(rb)).map_err(|p| Failure::new("intersect-panics", format!("{}: second intersect panicked: {}", ctx(), p)))?;
    if again != ab.range {
        return Err(Failure::new("intersect-not-deterministic", format!("{}: A∩B = {:?} the first time and {:?} the second", ctx(), ab.text, again.map(|r| r.to_string()))));
    }
    let pv = probes_of(&[&a, &b, &ab], &c.extra);
    let tie = share_bound(&a.model, &b.model);
    if tie {
        st.class("tie(shared bound version)");
    } else if endpoint_inside(&a.model, &b.model) {
        st.class("endpoint-inside-other");
    } else {
        st.class("disjoint-or-unrelated");
    }
    if c.a.depth() > 0 || c.b.depth() > 0 {
        st.class("operand-is-a-result");
    }
    if ab.range.is_none() {
        st.class("result-none");
        if let Some(w) = common_point(&a.model, &b.model) {
            return Err(Failure::new("intersect-none-but-overlap", format!("{}: intersect = None although {} lies within both", ctx(), w.text())));
        }
    }
    if ab.range.is_some() != ba.range.is_some() {
        return Err(Failure::new("intersect-not-commutative", format!("{}: A∩B = {:?} but B∩A = {:?}", ctx(), ab.text, ba.text)));
    }
    if aa.range.is_none() {
        return Err(Failure::new("intersect-not-idempotent", format!("{}: A∩A = None", ctx())));
    }
    for v in &pv {
        let cv = v.to_crate();
        let (ia, ib, iab) = (a.model.in_bounds(v), b.model.in_bounds(v), ab.model.in_bounds(v));
        let (sa, sb, sab) = (sat(&a, &cv), sat(&b, &cv), sat(&ab, &cv));
        st.eval(1);
        if iab != (ia && ib) {
            return Err(Failure::new(
                "intersect-bounds",
                format!("{}: A∩B = {:?}; {} within A: {}, within B: {}, within A∩B: {}", ctx(), ab.text, v.text(), ia, ib, iab),
            ));
        }
        if !v.is_pre() {
            if sab != (sa && sb) {
                return Err(Failure::new("intersect-release-sat", format!("{}: A∩B = {:?}; release {} satisfies A: {}, B: {}, A∩B: {}", ctx(), ab.text, v.text(), sa, sb, sab)));
            }
        } else {
            if sa && sb && !sab {
                return Err(Failure::new("intersect-loses-prerelease", format!("{}: A∩B = {:?}; prerelease {} satisfies both operands but not the result", ctx(), ab.text, v.text())));
            }
            if sab && !(ia && ib && (sa || sb)) {
                return Err(Failure::new(
                    "intersect-admits-foreign-prerelease",
                    format!("{}: A∩B = {:?}; prerelease {} satisfies the result but within A: {}, within B: {}, sat A: {}, sat B: {}", ctx(), ab.text, v.text(), ia, ib, sa, sb),
                ));
            }
        }
        // commutative and idempotent up to the admitted versions
        if ba.model.in_bounds(v) != iab || sat(&ba, &cv) != sab {
            return Err(Failure::new("intersect-not-commutative", format!("{}: A∩B = {:?} and B∩A = {:?} differ on {}", ctx(), ab.text, ba.text, v.text())));
        }
        if aa.model.in_bounds(v) != ia || sat(&aa, &cv) != sa {
            return Err(Failure::new("intersect-not-idempotent", format!("{}: A∩A = {:?} differs from A on {}", ctx(), aa.text, v.text())));
        }
    }
    if tie || endpoint_inside(&a.model, &b.model) {
        st.nontrivial(&(a.text.clone(), b.text.clone()), || json!({"A": a.text, "B": b.text, "A∩B": ab.text, "tie": tie}));
    }
    Ok(())
}

pub fn run(cfg: &RunCfg) -> PropRun {
    let mut run = PropRun::default();
    run.rule = "pairs (A, B) of Range values: leaves are 1..3 alternatives of interval texts (every inclusive/exclusive/unbounded combination, exact, caret/tilde/x/hyphen/partial-upper sugar) over a sorted pool of 3..8 versions drawn from <=5 neighbouring tuples x tags {release,-0,-a,-a.0,-b}; operands are leaves or results of one earlier intersect/difference. Oracle: pointwise on ~40 probes per bound version: within(A∩B) == within(A)&&within(B) on the interval models read from Display; releases: sat equality; prereleases: the two implications of the statement; None => exact emptiness of the overlap; A∩B vs B∩A and A∩A vs A pointwise. Non-trivial = operands share a bound version or an endpoint of one lies within the other; distinct by the two operand texts.".into();
    run.assumptions = vec!["bounds membership of a Range value is read from its canonical Display".into()];
    // every ordered pair of the 91 single intervals over the adjacent 6-version chain (all bound kinds)
    let ivs = crate::props::c09::structured_intervals();
    let n = ivs.len();
    let ir = &ivs;
    let out = enumerate(
        cfg,
        "structured-pairs",
        move |shard, nsh| (0..n).filter(move |i| i % nsh == shard).flat_map(move |i| (0..n).map(move |j| (i, j))),
        move |(i, j), st| check_pair(&PairCase { a: Expr::Leaf(ir[*i].clone()), b: Expr::Leaf(ir[*j].clone()), extra: vec![] }, st),
    );
    run.absorb(out);
    run.stats.exhaustive_subspaces.push(json!({"name": "single intervals over an adjacent 6-version chain, all bound kinds", "intervals": n, "ordered_pairs": n * n}));
    let out = campaign(cfg, ID, "pairs", cfg.pick(400_000, 4_000_000), || pair_strategy(1, 3), check_pair);
    run.absorb(out);
    let tie = run.stats.class_count("tie(shared bound version)");
    let all = tie + run.stats.class_count("endpoint-inside-other") + run.stats.class_count("disjoint-or-unrelated");
    run.stats.notes.push(format!("ties: {:.1}% of evaluated pairs", 100.0 * tie as f64 / all.max(1) as f64));
    run
}

pub fn replay(campaign: &str, case: &Value) -> Result<(), Failure> {
    let bad = |e: serde_json::Error| Failure::new("bad-replay", e.to_string());
    if campaign == "structured-pairs" {
        let (i, j): (usize, usize) = serde_json::from_value(case.clone()).map_err(bad)?;
        let ivs = crate::props::c09::structured_intervals();
        return check_pair(&PairCase { a: Expr::Leaf(ivs[i].clone()), b: Expr::Leaf(ivs[j].clone()), extra: vec![] }, &mut Stats::default());
    }
    let c: PairCase = serde_json::from_value(case.clone()).map_err(bad)?;
    check_pair(&c, &mut Stats::default())
}
