//! C02 - space-joined comparators intersect; `||` alternatives unite; order never matters.
use crate::engine::*;
use crate::gen::range_ast::*;
use crate::model::interval::{IModel, Interval};
use crate::model::probes;
use crate::model::version::*;
use crate::props::c01::extra_versions;
use nodejs_semver::{Range, Version};
use proptest::prelude::*;
use serde::{Deserialize, Serialize};
use serde_json::{json, Value};
use std::cmp::Ordering;

pub const ID: &str = "C02";

#[derive(Clone, Debug, Serialize, Deserialize)]
pub struct Case {
    pub a: RangeAst,
    pub b: RangeAst,
    pub joiner: String,
    pub extra: Vec<MVersion>,
}

pub fn parse(text: &str) -> Result<Option<Range>, Failure> {
    match guard(|| Range::parse(text)) {
        Ok(Ok(r)) => Ok(Some(r)),
        Ok(Err(_)) => Ok(None),
        Err(p) => Err(Failure::new("parse-panics", format!("Range::parse({:?}) panicked: {}", text, p))),
    }
}

pub fn model(r: &Range) -> Result<IModel, Failure> {
    IModel::of(r).map_err(|e| Failure::new("display-unreadable", format!("{} {}", INCONCLUSIVE, e)))
}

pub fn sat(r: &Range, v: &Version) -> bool {
    r.satisfies(v)
}

fn isect(a: &Interval, b: &Interval) -> Interval {
    let lo = match (&a.lo, &b.lo) {
        (None, x) | (x, None) => x.clone(),
        (Some((va, ia)), Some((vb, ib))) => match cmp_semver(va, vb) {
            Ordering::Greater => Some((va.clone(), *ia)),
            Ordering::Less => Some((vb.clone(), *ib)),
            Ordering::Equal => Some((va.clone(), *ia && *ib)),
        },
    };
    let hi = match (&a.hi, &b.hi) {
        (None, x) | (x, None) => x.clone(),
        (Some((va, ia)), Some((vb, ib))) => match cmp_semver(va, vb) {
            Ordering::Less => Some((va.clone(), *ia)),
            Ordering::Greater => Some((vb.clone(), *ib)),
            Ordering::Equal => Some((va.clone(), *ia && *ib)),
        },
    };
    Interval { lo, hi }
}

fn in_domain(v: &MVersion) -> bool {
    let m = max_int();
    v.major <= m && v.minor <= m && v.patch <= m
}

/// can some in-domain version satisfy both (single-interval) models, by the statement's rule?
fn conj_satisfiable(ma: &IModel, mb: &IModel) -> Option<MVersion> {
    for x in &ma.ivs {
        for y in &mb.ivs {
            let i = isect(x, y);
            // candidates: least in bounds, its release, the opted-in tuples of the four bounds
            let mut cands = vec![];
            if let Some(m) = i.least_in_bounds() {
                cands.push(m.clone());
                cands.push(m.release());
                cands.push(MVersion::new(m.major, m.minor, m.patch.saturating_add(1)));
            }
            for b in [&x.lo, &x.hi, &y.lo, &y.hi].into_iter().flatten() {
                let v = &b.0;
                cands.push(v.strip_build());
                cands.push(v.successor());
                cands.push(MVersion::new(v.major, v.minor, v.patch).with_pre(vec![MId::Num(0)]));
            }
            for c in cands {
                if in_domain(&c) && i.in_bounds(&c) && (!c.is_pre() || x.opts_in(&c) || y.opts_in(&c)) {
                    return Some(c);
                }
            }
        }
    }
    None
}

fn probes_for(models: &[&IModel], extra: &[MVersion]) -> Vec<MVersion> {
    let mut b = vec![];
    for m in models {
        b.extend(m.bound_versions());
    }
    probes::probes(&b, extra)
}

fn pointwise_equal(what: &str, t1: &str, r1: &Option<Range>, t2: &str, r2: &Option<Range>, pv: &[MVersion], st: &mut Stats) -> Result<(), Failure> {
    match (r1, r2) {
        (None, None) => Ok(()),
        (Some(x), Some(y)) => {
            for v in pv {
                let cv = v.to_crate();
                st.eval(1);
                if sat(x, &cv) != sat(y, &cv) {
                    return Err(Failure::new(
                        "order-matters",
                        format!("{}: {:?} (= {:?}) and {:?} (= {:?}) differ on {}: {} vs {}", what, t1, x.to_string(), t2, y.to_string(), v.text(), sat(x, &cv), sat(y, &cv)),
                    ));
                }
            }
            Ok(())
        }
        (x, y) => {
            // one order parses and the other does not: only tolerable if the parsed one admits nothing
            let r = x.as_ref().or(y.as_ref()).unwrap();
            for v in pv {
                if sat(r, &v.to_crate()) {
                    return Err(Failure::new(
                        "order-matters",
                        format!("{}: {:?} parses: {} but {:?} parses: {} (and the parsed one admits {})", what, t1, x.is_some(), t2, y.is_some(), v.text()),
                    ));
                }
            }
            Ok(())
        }
    }
}

pub fn check_union(c: &Case, st: &mut Stats) -> Result<(), Failure> {
    let (ta, tb) = (c.a.render(), c.b.render());
    let (ra, rb) = (parse(&ta)?, parse(&tb)?);
    let (ra, rb) = match (ra, rb) {
        (Some(x), Some(y)) => (x, y),
        _ => {
            st.discarded += 1;
            st.class("union:a-side-does-not-parse(discarded)");
            return Ok(());
        }
    };
    // the joiner always contains `||` (a minimised or hand-written case may have lost it)
    let joiner = if c.joiner.contains("||") && c.joiner.replace("||", "").trim().is_empty() { c.joiner.clone() } else { " || ".to_string() };
    let text = format!("{}{}{}", ta, joiner, tb);
    let r = match parse(&text)? {
        Some(r) => r,
        None => return Err(Failure::new("union-does-not-parse", format!("{:?} and {:?} parse but {:?} does not", ta, tb, text))),
    };
    let (ma, mb) = (model(&ra)?, model(&rb)?);
    let pv = probes_for(&[&ma, &mb], &c.extra);
    let (mut only_a, mut only_b) = (false, false);
    for v in &pv {
        let cv = v.to_crate();
        let (sa, sb, su) = (sat(&ra, &cv), sat(&rb, &cv), sat(&r, &cv));
        st.eval(1);
        only_a |= sa && !sb;
        only_b |= sb && !sa;
        if su != (sa || sb) {
            return Err(Failure::new(
                "union-law",
                format!("{:?} = {:?}: satisfies({}) = {} but a={:?} says {} and b={:?} says {}", text, r.to_string(), v.text(), su, ta, sa, tb, sb),
            ));
        }
    }
    // order of alternatives
    let t2 = format!("{}{}{}", tb, joiner, ta);
    let r2 = parse(&t2)?;
    pointwise_equal("alternatives swapped", &text, &Some(r.clone()), &t2, &r2, &pv, st)?;
    let mut rev = RangeAst::of(c.a.alts.iter().chain(c.b.alts.iter()).rev().cloned().collect(), vec![]);
    rev.ors = vec![(1, 1); rev.alts.len().saturating_sub(1)];
    let t3 = rev.render();
    let r3 = parse(&t3)?;
    pointwise_equal("alternatives reversed", &text, &Some(r), &t3, &r3, &pv, st)?;
    st.class("union");
    if only_a && only_b {
        st.nontrivial(&text, || json!({"law": "union", "text": text}));
    }
    Ok(())
}

fn toks_of(a: &RangeAst) -> Vec<Tok> {
    match &a.alts[0] {
        Alt::Simples { toks, .. } => toks.clone(),
        _ => vec![],
    }
}

pub fn check_conj(c: &Case, st: &mut Stats) -> Result<(), Failure> {
    let (ta, tb) = (c.a.render(), c.b.render());
    let (ra, rb) = (parse(&ta)?, parse(&tb)?);
    let (ra, rb) = match (ra, rb) {
        (Some(x), Some(y)) => (x, y),
        _ => {
            st.discarded += 1;
            st.class("conj:a-side-does-not-parse(discarded)");
            return Ok(());
        }
    };
    let (ma, mb) = (model(&ra)?, model(&rb)?);
    let joiner = if c.joiner.contains("||") { " " } else { c.joiner.as_str() };
    let joiner = if joiner.trim().is_empty() && !joiner.is_empty() { joiner } else { " " };
    let text = format!("{}{}{}", ta, joiner, tb);
    let r = parse(&text)?;
    let pv = probes_for(&[&ma, &mb], &c.extra);
    let witness = conj_satisfiable(&ma, &mb);
    st.class("conjunction");
    let mut both_any = false;
    let (mut only_a, mut only_b) = (false, false);
    match &r {
        None => {
            st.class("conj:parse-error");
            if let Some(w) = &witness {
                return Err(Failure::new(
                    "conjunction-rejected-although-satisfiable",
                    format!("{:?} and {:?} parse, {} is within both and satisfies one, but {:?} fails to parse", ta, tb, w.text(), text),
                ));
            }
        }
        Some(r) => {
            for v in &pv {
                let cv = v.to_crate();
                let (sa, sb, sr) = (sat(&ra, &cv), sat(&rb, &cv), sat(r, &cv));
                let (ia, ib) = (ma.in_bounds(v), mb.in_bounds(v));
                st.eval(1);
                let exp = if v.is_pre() { ia && ib && (sa || sb) } else { sa && sb };
                both_any |= exp;
                only_a |= sa && !sb;
                only_b |= sb && !sa;
                if sr != exp {
                    return Err(Failure::new(
                        "conjunction-law",
                        format!(
                            "{:?} = {:?}: satisfies({}) = {} but a={:?} (sat {}, in bounds {}) b={:?} (sat {}, in bounds {}) require {}",
                            text,
                            r.to_string(),
                            v.text(),
                            sr,
                            ta,
                            sa,
                            ia,
                            tb,
                            sb,
                            ib,
                            exp
                        ),
                    ));
                }
            }
        }
    }
    if witness.is_none() {
        st.class("conj:empty-overlap");
    }
    // order: `b a`, and all tokens reversed
    let t2 = format!("{}{}{}", tb, joiner, ta);
    let r2 = parse(&t2)?;
    pointwise_equal("sides swapped", &text, &r, &t2, &r2, &pv, st)?;
    let mut all: Vec<Tok> = toks_of(&c.a);
    all.extend(toks_of(&c.b));
    all.reverse();
    let n = all.len();
    let rev = RangeAst::single(Alt::Simples { toks: all, seps: vec![" ".to_string(); n.saturating_sub(1)] });
    let t3 = rev.render();
    let r3 = parse(&t3)?;
    pointwise_equal("tokens reversed", &text, &r, &t3, &r3, &pv, st)?;
    if (only_a && only_b) || witness.is_none() {
        st.nontrivial(&text, || json!({"law": "conjunction", "text": text, "overlap": witness.as_ref().map(|w| w.text())}));
    }
    let _ = both_any;
    Ok(())
}

fn cfg_for(pool: Vec<u64>, conj: bool) -> GenCfg {
    let mut cfg = GenCfg::standard(pool);
    // sides must parse on their own: keep them short (a side that is itself unsatisfiable is discarded)
    cfg.few_toks = true;
    cfg.max_alts = 2;
    cfg.allow_misplaced_wild = true;
    cfg.allow_lowerless_hyphen = !conj;
    cfg.allow_empty_alt = !conj;
    if conj {
        cfg.max_alts = 1;
        cfg.allow_hyphen = false;
    }
    cfg
}

pub fn strategy(conj: bool) -> BoxedStrategy<Case> {
    pool_strategy()
        .prop_flat_map(move |pool| {
            (
                range_ast_with(cfg_for(pool.clone(), conj)),
                range_ast_with(cfg_for(pool.clone(), conj)),
                if conj { proptest::sample::select(vec![" ", "  ", "\t"]).boxed() } else { proptest::sample::select(vec!["||", " || ", " ||", "||  "]).boxed() },
                extra_versions(pool),
            )
        })
        .prop_map(|(a, b, j, extra)| Case { a, b, joiner: j.to_string(), extra })
        .boxed()
}

pub fn run(cfg: &RunCfg) -> PropRun {
    let mut run = PropRun::default();
    run.rule = "pairs (a, b) of range texts rendered from generated ASTs over a shared small number pool, both required to parse alone (otherwise discarded and counted). Union campaign: any ASTs, `a || b` must parse and sat(a||b,v) == sat(a,v)||sat(b,v) at ~40 boundary probes per bound; swapped and reversed alternatives answer identically. Conjunction campaign: single alternatives without hyphen form; `a b`: release v: sat == sat(a)&&sat(b); prerelease v: sat == in-bounds(a)&&in-bounds(b)&&(sat(a)||sat(b)); if it fails to parse, no in-domain version may lie in both and satisfy one (exact interval computation); `b a` and reversed token order answer identically. Non-trivial = each side admits a probe the other rejects, or the overlap is empty; distinct by the joined text.".into();
    run.assumptions = vec!["in-bounds membership is read from the interval model recovered from the operands' Display".into()];
    let out = campaign(cfg, ID, "union", cfg.pick(150_000, 1_500_000), || strategy(false), check_union);
    run.absorb(out);
    let out = campaign(cfg, ID, "conjunction", cfg.pick(250_000, 2_500_000), || strategy(true), check_conj);
    run.absorb(out);
    run
}

pub fn replay(campaign: &str, case: &Value) -> Result<(), Failure> {
    let c: Case = serde_json::from_value(case.clone()).map_err(|e| Failure::new("bad-replay", e.to_string()))?;
    let mut st = Stats::default();
    match campaign {
        "union" => check_union(&c, &mut st),
        "conjunction" => check_conj(&c, &mut st),
        _ => Err(Failure::new("bad-replay", format!("unknown campaign {}", campaign))),
    }
}
