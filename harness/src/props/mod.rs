use crate::engine::{Failure, PropRun, RunCfg};
use serde_json::Value;

pub mod c04;

pub struct PropDef {
    pub id: &'static str,
    pub run: fn(&RunCfg) -> PropRun,
    pub replay: fn(&str, &Value) -> Result<(), Failure>,
}

pub fn registry() -> Vec<PropDef> {
    vec![
        PropDef { id: c04::ID, run: c04::run, replay: c04::replay },
    ]
}
