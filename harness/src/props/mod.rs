use crate::engine::{Failure, PropRun, RunCfg};
use serde_json::Value;

pub mod c01;
pub mod c02;
pub mod c03;
pub mod c04;
pub mod alg;
pub mod c07;
pub mod c08;
pub mod c09;
pub mod c10;
pub mod c11;
pub mod c05;
pub mod c06;
pub mod c12;
pub mod c13;
pub mod c14;
pub mod c15;
pub mod c17;
pub mod c16;
pub mod c18;

pub struct PropDef {
    pub id: &'static str,
    pub run: fn(&RunCfg) -> PropRun,
    pub replay: fn(&str, &Value) -> Result<(), Failure>,
}

pub fn registry() -> Vec<PropDef> {
    vec![
        PropDef { id: c01::ID, run: c01::run, replay: c01::replay },
        PropDef { id: c02::ID, run: c02::run, replay: c02::replay },
        PropDef { id: c03::ID, run: c03::run, replay: c03::replay },
        PropDef { id: c04::ID, run: c04::run, replay: c04::replay },
        PropDef { id: c13::ID, run: c13::run, replay: c13::replay },
        PropDef { id: c14::ID, run: c14::run, replay: c14::replay },
        PropDef { id: c15::ID, run: c15::run, replay: c15::replay },
        PropDef { id: c16::ID, run: c16::run, replay: c16::replay },
        PropDef { id: c18::ID, run: c18::run, replay: c18::replay },
        PropDef { id: c05::ID, run: c05::run, replay: c05::replay },
        PropDef { id: c06::ID, run: c06::run, replay: c06::replay },
        PropDef { id: c07::ID, run: c07::run, replay: c07::replay },
        PropDef { id: c08::ID, run: c08::run, replay: c08::replay },
        PropDef { id: c09::ID, run: c09::run, replay: c09::replay },
        PropDef { id: c10::ID, run: c10::run, replay: c10::replay },
        PropDef { id: c11::ID, run: c11::run, replay: c11::replay },
        PropDef { id: c12::ID, run: c12::run, replay: c12::replay },
        PropDef { id: c17::ID, run: c17::run, replay: c17::replay },
    ]
}
