//! C08 - difference computes exactly the set difference of two ranges.
use crate::engine::*;
use crate::ev;
use crate::props::alg::*;
use crate::props::c07::{pair_strategy, PairCase};
use serde_json::{json, Value};

pub const ID: &str = "C08";

pub fn check_pair(c: &PairCase, st: &mut Stats) -> Result<(), Failure> {
    let a = ev!(eval(&c.a), st);
    let b = ev!(eval(&c.b), st);
    let (ra, rb) = match (&a.range, &b.range) {
        (Some(x), Some(y)) => (x, y),
        _ => {
            st.class("operand-empty(discarded)");
            st.discarded += 1;
            return Ok(());
        }
    };
    let ctx = || format!("A = {} = {:?}, B = {} = {:?}", c.a.show(), a.text, c.b.show(), b.text);
    let d = val_of(guard(|| ra.difference(rb)).map_err(|p| Failure::new("difference-panics", format!("{}: difference panicked: {}", ctx(), p)))?)?;
    let i = val_of(guard(|| ra.intersect(rb)).map_err(|p| Failure::new("intersect-panics", format!("{}: intersect panicked: {}", ctx(), p)))?)?;
    let again = guard(|| ra.difference(rb)).map_err(|p| Failure::new("difference-panics", format!("{}: second difference panicked: {}", ctx(), p)))?;
    if again != d.range {
        return Err(Failure::new("difference-not-deterministic", format!("{}: A\\B = {:?} the first time and {:?} the second", ctx(), d.text, again.map(|r| r.to_string()))));
    }
    let pv = probes_of(&[&a, &b, &d], &c.extra);
    let multi = b.model.ivs.len() >= 2;
    if multi {
        st.class("B-multi-alternative");
    }
    let overlapping = b.model.ivs.iter().filter(|y| a.model.ivs.iter().any(|x| isect(x, y).nonempty())).count();
    if overlapping >= 2 {
        st.class("B->=2-alternatives-overlap-A");
    }
    let cuts = d.model.ivs.len() > a.model.ivs.len();
    if cuts {
        st.class("B-cuts-A-in-two");
    }
    let touches = share_bound(&a.model, &b.model);
    if touches {
        st.class("B-touches-endpoint-of-A");
    }
    if d.range.is_none() {
        st.class("result-none");
        if let Some(w) = points_outside(&a.model, &b.model) {
            return Err(Failure::new("difference-none-but-remainder", format!("{}: difference = None although {} is within A and outside B", ctx(), w.text())));
        }
    }
    for v in &pv {
        let cv = v.to_crate();
        let (ia, ib, id, ii) = (a.model.in_bounds(v), b.model.in_bounds(v), d.model.in_bounds(v), i.model.in_bounds(v));
        st.eval(1);
        if id != (ia && !ib) {
            return Err(Failure::new(
                if id && ib { "difference-contains-B" } else { "difference-bounds" },
                format!("{}: A\\B = {:?}; {} within A: {}, within B: {}, within A\\B: {}", ctx(), d.text, v.text(), ia, ib, id),
            ));
        }
        if !v.is_pre() {
            let (sa, sb, sd) = (sat(&a, &cv), sat(&b, &cv), sat(&d, &cv));
            if sd != (sa && !sb) {
                return Err(Failure::new("difference-release-sat", format!("{}: A\\B = {:?}; release {} satisfies A: {}, B: {}, A\\B: {}", ctx(), d.text, v.text(), sa, sb, sd)));
            }
        }
        // partition of A
        if ia {
            if ii == id {
                return Err(Failure::new(
                    "difference-partition",
                    format!("{}: A∩B = {:?}, A\\B = {:?}; {} is within A but within A∩B: {} and within A\\B: {}", ctx(), i.text, d.text, v.text(), ii, id),
                ));
            }
        } else if ii || id {
            return Err(Failure::new("difference-partition", format!("{}: {} is outside A but within A∩B: {} / A\\B: {}", ctx(), v.text(), ii, id)));
        }
    }
    if overlapping >= 2 || cuts || touches {
        st.nontrivial(&(a.text.clone(), b.text.clone()), || json!({"A": a.text, "B": b.text, "A\\B": d.text, "B_alternatives": b.model.ivs.len()}));
    }
    Ok(())
}

pub fn run(cfg: &RunCfg) -> PropRun {
    let mut run = PropRun::default();
    run.rule = "pairs (A, B) of Range values as in C07, B with 1..4 alternatives (often inside A, touching A's endpoints inclusively/exclusively, prerelease bounds). Oracle: pointwise on ~40 probes per bound: within(A\\B) == within(A)&&!within(B) for every alternative of B; releases: sat(A\\B) == sat(A)&&!sat(B); None => exactly nothing of A is outside B (exact interval computation); partition: every probe within A is in exactly one of A∩B, A\\B and none outside A is in either. Non-trivial = >=2 alternatives of B overlap A, or B cuts A in two, or B shares a bound version with A; distinct by operand texts.".into();
    run.assumptions = vec!["bounds membership of a Range value is read from its canonical Display".into(), "satisfies() of prerelease versions on the result is not asserted (flipped bounds create new tagged endpoints)".into()];
    // every ordered pair (A single interval, B single interval or a union of two) over the adjacent chain
    let ivs = crate::props::c09::structured_intervals();
    let n = ivs.len();
    let ir = &ivs;
    let out = enumerate(
        cfg,
        "structured-pairs",
        move |shard, nsh| (0..n).filter(move |i| i % nsh == shard).flat_map(move |i| (0..n).map(move |j| (i, j))),
        move |(i, j), st| {
            use crate::gen::ranges::Expr;
            check_pair(&PairCase { a: Expr::Leaf(ir[*i].clone()), b: Expr::Leaf(ir[*j].clone()), extra: vec![] }, st)?;
            // B with a second alternative taken from the chain in step with (i, j)
            let k = (*i * 7 + *j * 3) % n;
            check_pair(&PairCase { a: Expr::Leaf(ir[*i].clone()), b: Expr::Leaf(format!("{} || {}", ir[*j], ir[k])), extra: vec![] }, st)
        },
    );
    run.absorb(out);
    run.stats.exhaustive_subspaces.push(json!({"name": "A x B over single intervals of an adjacent 6-version chain (all bound kinds), B also as a two-alternative union", "intervals": n, "ordered_pairs": n * n}));
    let out = campaign(cfg, ID, "pairs", cfg.pick(400_000, 4_000_000), || pair_strategy(1, 4), check_pair);
    run.absorb(out);
    let multi = run.stats.class_count("B-multi-alternative");
    run.stats.notes.push(format!("multi-alternative B: {:.1}% of cases", 100.0 * multi as f64 / run.stats.cases.max(1) as f64));
    run
}

pub fn replay(campaign: &str, case: &Value) -> Result<(), Failure> {
    let bad = |e: serde_json::Error| Failure::new("bad-replay", e.to_string());
    if campaign == "structured-pairs" {
        use crate::gen::ranges::Expr;
        let (i, j): (usize, usize) = serde_json::from_value(case.clone()).map_err(bad)?;
        let ivs = crate::props::c09::structured_intervals();
        let n = ivs.len();
        let mut st = Stats::default();
        check_pair(&PairCase { a: Expr::Leaf(ivs[i].clone()), b: Expr::Leaf(ivs[j].clone()), extra: vec![] }, &mut st)?;
        let k = (i * 7 + j * 3) % n;
        return check_pair(&PairCase { a: Expr::Leaf(ivs[i].clone()), b: Expr::Leaf(format!("{} || {}", ivs[j], ivs[k])), extra: vec![] }, &mut st);
    }
    let c: PairCase = serde_json::from_value(case.clone()).map_err(bad)?;
    check_pair(&c, &mut Stats::default())
}
