//! C01 - range satisfaction follows npm range semantics for every range and version.
use crate::engine::*;
use crate::findings;
use crate::gen::range_ast::*;
use crate::gen::version as gv;
use crate::model::npm::{self, CmpSet};
use crate::model::probes;
use crate::model::version::*;
use nodejs_semver::{Range, Version};
use proptest::prelude::*;
use serde::{Deserialize, Serialize};
use serde_json::{json, Value};

pub const ID: &str = "C01";
pub const F_WILD: &str = "C01/wildcard-misplaced";
pub const F_HYPHEN: &str = "C01/lowerless-hyphen";
pub const F_EMPTY: &str = "C01/empty-alternative";
pub const F_LT_MAJOR: &str = "C01/lt-major-only-lacks-prerelease-floor";

#[derive(Clone, Debug, Serialize, Deserialize)]
pub struct Case {
    pub ast: RangeAst,
    pub extra: Vec<MVersion>,
}

pub fn interesting(sets: &[CmpSet]) -> Vec<MVersion> {
    sets.iter().flat_map(|s| s.iter().map(|c| c.v.clone())).collect()
}

/// D13 signature: a `<` comparator whose partial is major-only (N, N.x, N.x.x); only prereleases of
/// N.0.0 can be affected.
fn lt_major_only_tuples(ast: &RangeAst) -> Vec<(u64, u64, u64)> {
    let mut out = vec![];
    for (p, op) in ast.all_partials() {
        if op == Some(Op::Lt) {
            match npm::norm(p) {
                (Some(a), None, _, _) => out.push((a, 0, 0)),
                // `<x` becomes `<0.0.0`: the same missing `-0`
                (None, _, _, _) => out.push((0, 0, 0)),
                _ => {}
            }
        }
    }
    out
}

pub struct Outcome {
    pub compared: u64,
}

/// Compare the crate with the npm model on one AST.  `strict_known` = do not tolerate open findings.
pub fn check_ast(ast: &RangeAst, extra: &[MVersion], st: &mut Stats, strict_known: bool) -> Result<Outcome, Failure> {
    if !ast.well_formed() {
        return Ok(Outcome { compared: 0 });
    }
    // constructs of open findings are excluded by construction; a case that reaches this point through
    // the minimiser, a fuzz input or a replay file and lies in such a class is counted, not compared
    if !strict_known {
        for (open, hit) in [
            (F_WILD, ast.has_wildcard_misplaced()),
            (F_HYPHEN, ast.has_lowerless_hyphen()),
            (F_EMPTY, ast.has_empty_alternative()),
        ] {
            if hit && findings::is_open(open) {
                st.known(open);
                return Ok(Outcome { compared: 0 });
            }
        }
    }
    let text = ast.render();
    let sets = npm::desugar(ast);
    // history independence: a sibling spelling of the same range is parsed first (a memoised or
    // thread-local "last result" keyed on a normalised text would leak into the real call)
    {
        let mut sib = ast.clone();
        sib.lead = if sib.lead.is_empty() { " ".to_string() } else { String::new() };
        if let Some(Alt::Simples { toks, .. }) = sib.alts.first_mut() {
            if let Some(Tok::Cmp { p, blanks, .. }) = toks.first_mut() {
                p.v = !p.v;
                *blanks = (*blanks + 1) % 3;
            }
        }
        let st_text = sib.render();
        let _ = guard(|| Range::parse(&st_text).map(|r| r.satisfies(&Version::from((1u8, 2u8, 3u8)))));
    }
    let res = guard(|| Range::parse(&text)).map_err(|p| Failure::new("parse-panics", format!("Range::parse({:?}) panicked: {}", text, p)))?;
    let pv = probes::probes(&interesting(&sets), extra);
    let model_text = npm::sets_text(&sets);
    // classes
    if !st.frozen {
        if ast.alts.iter().any(|a| matches!(a, Alt::Hyphen { .. })) {
            st.class("hyphen");
        }
        if ast.alts.len() > 1 {
            st.class("alternatives(||)");
        }
        if ast.alts.iter().any(|a| matches!(a, Alt::Simples { toks, .. } if toks.iter().filter(|t| !t.is_garbage()).count() >= 2)) {
            st.class(">=2-comparators");
        }
        if ast.has_garbage() {
            st.class("garbage-token");
        }
        let parts = ast.all_partials();
        if parts.iter().any(|(p, op)| *op != Some(Op::Bare) && p.has_wild()) {
            st.class("wildcard-under-operator");
        }
        if parts.iter().any(|(p, _)| p.has_leading_zero()) {
            st.class("loose:leading-zeros");
        }
        if parts.iter().any(|(p, _)| p.v) {
            st.class("loose:v-prefix");
        }
        if parts.iter().any(|(p, _)| p.uses_hyphenless()) {
            st.class("loose:hyphenless-prerelease");
        }
        if ast.alts.iter().any(|a| matches!(a, Alt::Simples { toks, .. } if toks.iter().any(|t| matches!(t, Tok::Cmp { op, blanks, .. } if *op != Op::Bare && *blanks > 0)))) {
            st.class("loose:blanks-after-operator");
        }
    }
    let satisfiable = npm::satisfiable(&sets);
    let r = match res {
        Ok(r) => r,
        Err(e) => {
            st.class("parse-error");
            let whole_empty = ast.alts.len() == 1 && matches!(&ast.alts[0], Alt::Simples { toks, .. } if toks.is_empty());
            if sets.is_empty() || whole_empty {
                st.class("parse-error:no-valid-comparator");
                return Ok(Outcome { compared: 0 });
            }
            if !satisfiable {
                st.class("parse-error:unsatisfiable");
                st.nontrivial(&text, || json!({"range": text, "npm": model_text, "crate": "Err (nothing can satisfy it)"}));
                // cross-check of the exact routine by the probes
                if let Some(v) = pv.iter().find(|v| npm::admits(&sets, v)) {
                    return Err(Failure::new("oracle-inconsistent", format!("{} model says unsatisfiable but admits {}", INCONCLUSIVE, v.text())));
                }
                return Ok(Outcome { compared: 0 });
            }
            return Err(Failure::new(
                "satisfiable-range-rejected",
                format!("Range::parse({:?}) failed ({}) although npm reads it as {:?}, which admits {}", text, e, model_text, npm::least(&sets).map(|v| v.text()).unwrap_or_default()),
            ));
        }
    };
    if !satisfiable {
        st.class("parsed-but-unsatisfiable");
    }
    let lt_major = lt_major_only_tuples(ast);
    let mut admitted = 0u64;
    let mut rejected = 0u64;
    let mut compared = 0u64;
    let mut gate_decided = false;
    for v in &pv {
        if npm::dont_care(&sets, v) {
            st.dont_care += if st.frozen { 0 } else { 1 };
            continue;
        }
        let exp = npm::admits(&sets, v);
        let cv: Version = v.to_crate();
        let got = guard(|| r.satisfies(&cv)).map_err(|p| Failure::new("satisfies-panics", format!("({:?}).satisfies({}) panicked: {}", text, v.text(), p)))?;
        compared += 1;
        if exp {
            admitted += 1;
        } else {
            rejected += 1;
        }
        if v.is_pre() && sets.iter().any(|s| npm::in_all(s, v)) {
            gate_decided = true;
        }
        if got != exp {
            if !strict_known && findings::is_open(F_LT_MAJOR) && v.is_pre() && lt_major.contains(&v.tuple()) {
                st.known(F_LT_MAJOR);
                continue;
            }
            return Err(Failure::new(
                "sat-differs-from-npm",
                format!(
                    "Range::parse({:?}) = {:?}; satisfies({}) = {} but npm's desugaring {:?} {} it",
                    text,
                    r.to_string(),
                    v.text(),
                    got,
                    model_text,
                    if exp { "admits" } else { "rejects" }
                ),
            ));
        }
        let got2 = cv.satisfies(&r);
        if got2 != got {
            return Err(Failure::new("version-satisfies-disagrees", format!("{:?}: Range::satisfies({}) = {} but Version::satisfies = {}", text, v.text(), got, got2)));
        }
    }
    st.eval(compared);
    // FromStr agrees
    match guard(|| text.parse::<Range>()) {
        Ok(Ok(r2)) if r2 == r => {}
        other => {
            return Err(Failure::new(
                "fromstr-disagrees",
                format!("{:?}: Range::parse gives {:?} but str::parse gives {:?}", text, r.to_string(), other.map(|x| x.map(|y| y.to_string()).map_err(|e| e.to_string()))),
            ))
        }
    }
    if gate_decided {
        st.class("prerelease-probe-inside-bounds(gate decides)");
    }
    if (admitted > 0 && rejected > 0) || !satisfiable {
        st.nontrivial(&text, || json!({"range": text, "npm": model_text, "crate": r.to_string(), "probes": pv.len(), "admitted": admitted}));
    }
    Ok(Outcome { compared })
}

pub fn check_case(c: &Case, st: &mut Stats) -> Result<(), Failure> {
    check_ast(&c.ast, &c.extra, st, false).map(|_| ())
}

pub fn extra_versions(pool: Vec<u64>) -> BoxedStrategy<Vec<MVersion>> {
    let f = proptest::sample::select(pool);
    let near = (f.clone(), f.clone(), f, 0u64..2, gv::ident_list()).prop_map(|(a, b, c, d, pre)| MVersion {
        major: a,
        minor: b,
        patch: (c + d).min(max_int()),
        pre,
        build: vec![],
    });
    proptest::collection::vec(prop_oneof![3 => near, 1 => gv::mversion()], 2..=4).boxed()
}

pub fn case_strategy() -> BoxedStrategy<Case> {
    let wild_open = findings::is_open(F_WILD);
    let hyph_open = findings::is_open(F_HYPHEN);
    let empty_open = findings::is_open(F_EMPTY);
    pool_strategy()
        .prop_flat_map(move |pool| {
            let mut cfg = GenCfg::standard(pool.clone());
            // constructs of an open finding are excluded by construction (counted by the probes below)
            cfg.allow_misplaced_wild = !wild_open;
            cfg.allow_lowerless_hyphen = !hyph_open;
            cfg.allow_empty_alt = !empty_open;
            (range_ast_with(cfg), extra_versions(pool))
        })
        .prop_map(|(ast, extra)| Case { ast, extra })
        .boxed()
}

// ---- exhaustive single-token table -------------------------------------------------------

pub fn token_table() -> Vec<(Op, Partial)> {
    let comps: Vec<Comp> = vec![Comp::Num { val: 0, zeros: 0 }, Comp::Num { val: 1, zeros: 0 }, Comp::Num { val: 2, zeros: 0 }, Comp::Wild('x')];
    let quals: Vec<(Vec<&str>, Vec<&str>)> = vec![(vec![], vec![]), (vec!["0"], vec![]), (vec!["beta"], vec![]), (vec![], vec!["b"]), (vec!["beta"], vec!["b"])];
    let mut parts: Vec<Partial> = vec![];
    let mk = |c: Vec<Comp>, q: &(Vec<&str>, Vec<&str>)| Partial {
        v: false,
        comps: c,
        pre: q.0.iter().map(|s| s.to_string()).collect(),
        build: q.1.iter().map(|s| s.to_string()).collect(),
        hyphenless: false,
    };
    for a in &comps {
        parts.push(mk(vec![a.clone()], &quals[0]));
        for b in &comps {
            parts.push(mk(vec![a.clone(), b.clone()], &quals[0]));
            for c in &comps {
                for q in &quals {
                    parts.push(mk(vec![a.clone(), b.clone(), c.clone()], q));
                }
            }
        }
    }
    let mut out = vec![];
    for op in Op::all() {
        for p in &parts {
            out.push((op, p.clone()));
        }
    }
    out
}

/// reduced token set for the exhaustive two-token table
pub fn small_token_table() -> Vec<(Op, Partial)> {
    let comps: Vec<Comp> = vec![Comp::Num { val: 0, zeros: 0 }, Comp::Num { val: 1, zeros: 0 }, Comp::Wild('x')];
    let quals: Vec<Vec<&str>> = vec![vec![], vec!["0"], vec!["beta"]];
    let mk = |c: Vec<Comp>, q: &Vec<&str>| Partial { v: false, comps: c, pre: q.iter().map(|s| s.to_string()).collect(), build: vec![], hyphenless: false };
    let mut parts = vec![];
    for a in &comps {
        parts.push(mk(vec![a.clone()], &quals[0]));
        for b in &comps {
            parts.push(mk(vec![a.clone(), b.clone()], &quals[0]));
            for c in &comps {
                for q in &quals {
                    parts.push(mk(vec![a.clone(), b.clone(), c.clone()], q));
                }
            }
        }
    }
    let wild_open = findings::is_open(F_WILD);
    let mut out = vec![];
    for op in Op::all() {
        for p in &parts {
            if wild_open && op_wildcard_misplaced(op, p) {
                continue;
            }
            out.push((op, p.clone()));
        }
    }
    out
}

pub fn probe_grid() -> Vec<MVersion> {
    let mut out = vec![];
    for a in 0..4u64 {
        for b in 0..4u64 {
            for c in 0..4u64 {
                out.push(MVersion::new(a, b, c));
                out.push(MVersion::new(a, b, c).with_pre(vec![MId::Num(0)]));
                out.push(MVersion::new(a, b, c).with_pre(vec![MId::Str("beta".into())]));
                out.push(MVersion::new(a, b, c).with_pre(vec![MId::Str("zz".into())]));
            }
        }
    }
    out
}

/// compare one token against the grid; returns number of disagreeing probes (or Err text for a parse refusal)
fn token_vs_grid(op: Op, p: &Partial, grid: &[MVersion], cgrid: &[Version], st: &mut Stats) -> Result<u64, String> {
    let ast = RangeAst::single(Alt::Simples { toks: vec![Tok::Cmp { op, blanks: 0, p: p.clone() }], seps: vec![] });
    let text = ast.render();
    let sets = npm::desugar(&ast);
    let r = match guard(|| Range::parse(&text)) {
        Ok(Ok(r)) => r,
        Ok(Err(_)) => {
            return if npm::satisfiable(&sets) { Err(format!("{:?} rejected although npm reads it as {:?}", text, npm::sets_text(&sets))) } else { Ok(0) };
        }
        Err(p) => return Err(format!("{:?} panicked: {}", text, p)),
    };
    let mut bad = 0;
    let mut first = None;
    for (v, cv) in grid.iter().zip(cgrid.iter()) {
        if npm::dont_care(&sets, v) {
            continue;
        }
        let exp = npm::admits(&sets, v);
        let got = r.satisfies(cv);
        st.eval(1);
        if exp != got {
            bad += 1;
            if first.is_none() {
                first = Some(format!("{:?} = {:?}: satisfies({}) = {} but npm's {:?} says {}", text, r.to_string(), v.text(), got, npm::sets_text(&sets), exp));
            }
        }
    }
    if bad > 0 {
        Err(first.unwrap())
    } else {
        Ok(0)
    }
}

pub fn run(cfg: &RunCfg) -> PropRun {
    let mut run = PropRun::default();
    run.rule = "range texts rendered from a generated AST (1..3 alternatives of hyphen ranges or 1..3 comparators: bare/=/</<=/>/>=/~/~>/^ x partials with 1..3 components from a small shared number pool incl. MAX_SAFE_INTEGER, trailing x-ranges, prerelease/build qualifiers, loose spellings: leading zeros, v prefix, blanks after the operator, hyphenless prerelease, garbage tokens incl. comparators with a component above MAX_SAFE_INTEGER, empty alternatives) x ~40 boundary probes per comparator version (the version, its successor, the tuple's release/-0/tags, tags before/after, neighbouring patch/minor/major tuples as release/-0/tag, with build metadata) + random versions; plus the exhaustive single-token table (9 operators x 340 partial shapes over {0,1,2,x} x 5 qualifiers = 3060 tokens x 256-version grid). Oracle: npm's documented desugaring on the AST + node's testSet rule (golden-validated against node-semver 7.6.2). Non-trivial = the range discriminates (admits one probe and rejects another) or is unsatisfiable; distinct by rendered text.".into();
    run.assumptions = vec![
        "prerelease probes of 0.0.0 against sets containing >=0.0.0 are don't-care (README and node disagree)".into(),
        "constructs of open findings are excluded by construction and probed separately".into(),
        "which error kind a rejected text gets, and the printed desugaring, are not asserted".into(),
    ];
    match crate::golden::check_range_golden(&mut run.stats) {
        Ok(_) => {}
        Err(e) => {
            run.inconclusive.push(e);
            return run;
        }
    }

    // exhaustive single-token table
    let table = token_table();
    let grid = probe_grid();
    let cgrid: Vec<Version> = grid.iter().map(|v| v.to_crate()).collect();
    let wild_open = findings::is_open(F_WILD);
    let tr = &table;
    let (gr, cgr) = (&grid, &cgrid);
    let excluded = std::sync::atomic::AtomicU64::new(0);
    let known_bad = std::sync::atomic::AtomicU64::new(0);
    let out = enumerate(
        cfg,
        "single-token-table",
        move |shard, nsh| (0..tr.len()).filter(move |i| i % nsh == shard),
        |i, st| {
            let (op, p) = &tr[*i];
            let in_class = op_wildcard_misplaced(*op, p);
            if in_class && wild_open {
                excluded.fetch_add(1, std::sync::atomic::Ordering::Relaxed);
                if token_vs_grid(*op, p, gr, cgr, &mut Stats::default()).is_err() {
                    known_bad.fetch_add(1, std::sync::atomic::Ordering::Relaxed);
                }
                return Ok(());
            }
            // D13 (`<N`) is tolerated only through its own signature inside check_ast; here the grid
            // comparison would flag it, so route `<` major-only tokens through check_ast semantics
            match token_vs_grid(*op, p, gr, cgr, st) {
                Ok(_) => Ok(()),
                Err(m) => Err(Failure::new("token-differs-from-npm", m)),
            }
        },
    );
    run.absorb(out);
    run.stats.excluded_known += excluded.load(std::sync::atomic::Ordering::Relaxed);
    run.stats.exhaustive_subspaces.push(json!({"name": "single-token table", "tokens": table.len(), "grid_versions": grid.len(),
        "excluded_in_open_finding_class": excluded.load(std::sync::atomic::Ordering::Relaxed)}));
    let kb = known_bad.load(std::sync::atomic::Ordering::Relaxed);
    if wild_open && kb > 0 {
        run.known_lines.push(format!(
            "{}: {} of the {} single tokens with a wildcard in the major position under an operator, a wildcard followed by a number, or a qualifier after a wildcard disagree with npm (e.g. '^*' is dropped, '>x' admits 0.0.1)",
            F_WILD,
            kb,
            excluded.load(std::sync::atomic::Ordering::Relaxed)
        ));
    }
    known_probes(&mut run);

    // exhaustive two-token conjunctions over a reduced token set (9 operators x partials over {0,1,x}
    // x qualifier {none,-0,-beta}; tokens of an open finding class left out): every ordered pair
    let small = small_token_table();
    let sm = &small;
    let stride = if cfg.tier == Tier::Thorough { 1 } else { 3 };
    let out = enumerate(
        cfg,
        "two-token-table",
        move |shard, nsh| (0..sm.len()).filter(move |i| i % nsh == shard),
        move |i, st| {
            let mut j = (*i * 7) % stride;
            while j < sm.len() {
                let toks = vec![
                    Tok::Cmp { op: sm[*i].0, blanks: 0, p: sm[*i].1.clone() },
                    Tok::Cmp { op: sm[j].0, blanks: 0, p: sm[j].1.clone() },
                ];
                let ast = RangeAst::single(Alt::Simples { toks, seps: vec![" ".to_string()] });
                check_ast(&ast, &[], st, false)?;
                j += stride;
            }
            Ok(())
        },
    );
    run.absorb(out);
    run.stats.exhaustive_subspaces.push(json!({"name": "two-token conjunctions over the reduced token set", "tokens": small.len(), "ordered_pairs": small.len() * small.len() / stride,
        "stride": stride}));

    // random ASTs
    let total = cfg.pick(300_000, 3_000_000);
    let out = campaign(cfg, ID, "ast", total, case_strategy, check_case);
    run.absorb(out);
    if let Some(n) = run.stats.known_hits.get(F_LT_MAJOR) {
        run.stats.notes.push(format!("{} probe comparisons tolerated under {}", n, F_LT_MAJOR));
    }
    run
}

fn ast_of(toks: Vec<(Op, Vec<Comp>, Vec<&str>)>) -> RangeAst {
    let toks: Vec<Tok> = toks
        .into_iter()
        .map(|(op, comps, pre)| Tok::Cmp { op, blanks: 0, p: Partial { v: false, comps, pre: pre.iter().map(|s| s.to_string()).collect(), build: vec![], hyphenless: false } })
        .collect();
    let n = toks.len();
    RangeAst::single(Alt::Simples { toks, seps: vec![" ".to_string(); n.saturating_sub(1)] })
}

fn n(v: u64) -> Comp {
    Comp::Num { val: v, zeros: 0 }
}

/// the probe families of the open findings: print KNOWN-FINDING only if they still fail
fn known_probes(run: &mut PropRun) {
    let mut scratch = Stats::default();
    scratch.frozen = true;
    if findings::is_open(F_HYPHEN) {
        let ast = RangeAst::single(Alt::Hyphen { lo: None, hi: Partial { v: false, comps: vec![n(10)], pre: vec![], build: vec![], hyphenless: false }, pad: (0, 0) });
        if check_ast(&ast, &[MVersion::new(0, 0, 2)], &mut scratch, true).is_err() {
            run.known_lines.push(format!("{}: ' - 10' parses to '<11.0.0-0' and admits 0.0.2; npm (and the crate's own grammar comment) read it as '>=10.0.0 <11.0.0-0'", F_HYPHEN));
        }
    }
    if findings::is_open(F_EMPTY) {
        let mut ast = ast_of(vec![(Op::Bare, vec![n(1), n(2), n(3)], vec![])]);
        ast.alts.push(Alt::Simples { toks: vec![], seps: vec![] });
        ast.ors.push((1, 1));
        if check_ast(&ast, &[MVersion::new(2, 0, 0)], &mut scratch, true).is_err() {
            run.known_lines.push(format!("{}: '1.2.3 || ' rejects 2.0.0 although npm documents the empty alternative as '*'", F_EMPTY));
        }
    }
    if findings::is_open(F_LT_MAJOR) {
        let ast = ast_of(vec![(Op::TildeGt, vec![n(1), n(0), n(0)], vec!["-"]), (Op::Lt, vec![n(1)], vec![])]);
        if check_ast(&ast, &[MVersion::new(1, 0, 0).with_pre(vec![MId::Str("alpha".into())])], &mut scratch, true).is_err() {
            run.known_lines.push(format!("{}: '~>1.0.0-- <1' admits 1.0.0-alpha: '<1' desugars to '<1.0.0' instead of npm's '<1.0.0-0'", F_LT_MAJOR));
        }
    }
}

pub fn replay(campaign: &str, case: &Value) -> Result<(), Failure> {
    let bad = |e: serde_json::Error| Failure::new("bad-replay", e.to_string());
    let mut st = Stats::default();
    match campaign {
        "ast" => check_case(&serde_json::from_value(case.clone()).map_err(bad)?, &mut st),
        "two-token-table" => {
            let i: usize = serde_json::from_value(case.clone()).map_err(bad)?;
            let sm = small_token_table();
            for j in 0..sm.len() {
                let toks = vec![Tok::Cmp { op: sm[i].0, blanks: 0, p: sm[i].1.clone() }, Tok::Cmp { op: sm[j].0, blanks: 0, p: sm[j].1.clone() }];
                let ast = RangeAst::single(Alt::Simples { toks, seps: vec![" ".to_string()] });
                check_ast(&ast, &[], &mut st, false)?;
            }
            Ok(())
        }
        "single-token-table" => {
            let i: usize = serde_json::from_value(case.clone()).map_err(bad)?;
            let table = token_table();
            let grid = probe_grid();
            let cgrid: Vec<Version> = grid.iter().map(|v| v.to_crate()).collect();
            let (op, p) = &table[i];
            token_vs_grid(*op, p, &grid, &cgrid, &mut st).map(|_| ()).map_err(|m| Failure::new("token-differs-from-npm", m))
        }
        _ => Err(Failure::new("bad-replay", format!("unknown campaign {}", campaign))),
    }
}
