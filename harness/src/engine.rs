//! Campaign engine: proptest `TestRunner`s sharded over threads, statistics, failures, replay files.
use proptest::strategy::Strategy;
use proptest::test_runner::{Config, RngSeed, TestCaseError, TestError, TestRunner};
use serde::Serialize;
use serde_json::{json, Value};
use std::cell::RefCell;
use std::collections::hash_map::DefaultHasher;
use std::collections::{BTreeMap, HashSet};
use std::hash::{Hash, Hasher};
use std::panic::{catch_unwind, AssertUnwindSafe};

#[derive(Clone, Copy, Debug, PartialEq, Eq)]
pub enum Tier {
    Quick,
    Thorough,
}

#[derive(Clone, Debug)]
pub struct RunCfg {
    pub tier: Tier,
    pub seed: u64,
    pub threads: usize,
    /// multiplies every random case count (VERIF_SCALE, default 1.0) -- used by mutant runs
    pub scale: f64,
}

impl RunCfg {
    pub fn pick(&self, quick: u64, thorough: u64) -> u64 {
        let n = match self.tier {
            Tier::Quick => quick,
            Tier::Thorough => thorough,
        };
        ((n as f64 * self.scale) as u64).max(1)
    }
}

#[derive(Clone, Debug, Serialize)]
pub struct Failure {
    /// name of the relation that failed, e.g. "sat-differs-from-npm"
    pub check: String,
    pub message: String,
    /// the (shrunk) case, serialised -- enough to replay
    pub case: Value,
    pub campaign: String,
}

impl Failure {
    pub fn new(check: &str, message: String) -> Failure {
        Failure { check: check.to_string(), message, case: Value::Null, campaign: String::new() }
    }
}

#[derive(Default, Debug)]
pub struct Stats {
    pub cases: u64,
    pub evaluations: u64,
    pub nontrivial: HashSet<u64>,
    pub classes: BTreeMap<String, u64>,
    pub samples: Vec<Value>,
    pub excluded_known: u64,
    pub known_hits: BTreeMap<String, u64>,
    pub dont_care: u64,
    pub discarded: u64,
    pub exhaustive_subspaces: Vec<Value>,
    pub notes: Vec<String>,
    pub frozen: bool,
}

pub const MAX_SAMPLES: usize = 6;

pub fn hash_of<T: Hash + ?Sized>(t: &T) -> u64 {
    let mut h = DefaultHasher::new();
    t.hash(&mut h);
    h.finish()
}

impl Stats {
    pub fn case(&mut self) {
        if !self.frozen {
            self.cases += 1;
        }
    }
    pub fn eval(&mut self, n: u64) {
        if !self.frozen {
            self.evaluations += n;
        }
    }
    pub fn class(&mut self, name: &str) {
        self.class_n(name, 1)
    }
    pub fn class_n(&mut self, name: &str, n: u64) {
        if !self.frozen && n > 0 {
            if let Some(c) = self.classes.get_mut(name) {
                *c += n;
            } else {
                self.classes.insert(name.to_string(), n);
            }
        }
    }
    pub fn nontrivial<K: Hash + ?Sized>(&mut self, key: &K, sample: impl FnOnce() -> Value) {
        if self.frozen {
            return;
        }
        if self.nontrivial.insert(hash_of(key)) && self.samples.len() < MAX_SAMPLES {
            self.samples.push(sample());
        }
    }
    pub fn known(&mut self, id: &str) {
        if !self.frozen {
            *self.known_hits.entry(id.to_string()).or_insert(0) += 1;
        }
    }
    pub fn merge(&mut self, o: Stats) {
        self.cases += o.cases;
        self.evaluations += o.evaluations;
        self.nontrivial.extend(o.nontrivial);
        for (k, v) in o.classes {
            *self.classes.entry(k).or_insert(0) += v;
        }
        for s in o.samples {
            if self.samples.len() < MAX_SAMPLES {
                self.samples.push(s);
            }
        }
        self.excluded_known += o.excluded_known;
        for (k, v) in o.known_hits {
            *self.known_hits.entry(k).or_insert(0) += v;
        }
        self.dont_care += o.dont_care;
        self.discarded += o.discarded;
        self.exhaustive_subspaces.extend(o.exhaustive_subspaces);
        self.notes.extend(o.notes);
    }
    pub fn class_count(&self, name: &str) -> u64 {
        self.classes.get(name).copied().unwrap_or(0)
    }
}

/// Result of one property run (all campaigns).
#[derive(Default, Debug)]
pub struct PropRun {
    pub stats: Stats,
    pub failures: Vec<Failure>,
    /// infrastructure trouble (oracle self-test failed, unparseable Display ...): exit 2
    pub inconclusive: Vec<String>,
    /// KNOWN-FINDING lines to print
    pub known_lines: Vec<String>,
    pub rule: String,
    pub assumptions: Vec<String>,
}

impl PropRun {
    pub fn absorb(&mut self, c: CampaignOut) {
        self.stats.merge(c.stats);
        self.failures.extend(c.failures);
        self.inconclusive.extend(c.inconclusive);
    }
}

#[derive(Default, Debug)]
pub struct CampaignOut {
    pub stats: Stats,
    pub failures: Vec<Failure>,
    pub inconclusive: Vec<String>,
}

// --- hang watch -------------------------------------------------------------------------------
// Every campaign / enumeration shard registers a slot: it bumps `seq` and stores a clone of the case before
// each check.  One watchdog thread per process samples the shards' *thread CPU clocks*: a shard that burns
// more than HANG_CPU_S seconds of CPU inside one case is hanging (the checks run 10^4..10^6 cases per second;
// CPU time, unlike wall time, does not depend on the load of the machine).  "No input makes any operation
// hang" is C06's property: there the case becomes a VIOLATION with a replay file; for the other
// properties the run ends at once as inconclusive (exit 2) and names the case.
pub struct WatchSlot {
    clock: libc::clockid_t,
    pub seq: std::sync::atomic::AtomicU64,
    campaign: String,
    describe: Box<dyn Fn() -> Value + Send + Sync>,
    /// multiple of the CPU limit this slot is allowed (the main thread between two campaigns merges results)
    factor: f64,
}
static MAIN_SLOT: std::sync::Mutex<Option<std::sync::Arc<WatchSlot>>> = std::sync::Mutex::new(None);
static WATCH: std::sync::Mutex<Vec<std::sync::Arc<WatchSlot>>> = std::sync::Mutex::new(Vec::new());
static WATCH_PROP: std::sync::Mutex<String> = std::sync::Mutex::new(String::new());
static WATCH_ON: std::sync::Once = std::sync::Once::new();

pub fn hang_cpu_limit() -> f64 {
    std::env::var("VERIF_HANG_CPU_S").ok().and_then(|s| s.parse().ok()).unwrap_or(60.0)
}

/// call once per process before the campaigns: names the property the run belongs to
pub fn watch_property(id: &str) {
    *WATCH_PROP.lock().unwrap() = id.to_string();
}

pub struct WatchGuard(pub std::sync::Arc<WatchSlot>);
impl Drop for WatchGuard {
    fn drop(&mut self) {
        if let Ok(mut w) = WATCH.lock() {
            w.retain(|s| !std::sync::Arc::ptr_eq(s, &self.0));
        }
    }
}

/// register the calling thread; `describe` must return the case it is executing (as replayable JSON)
pub fn watch_register(campaign: &str, describe: Box<dyn Fn() -> Value + Send + Sync>) -> WatchGuard {
    watch_register_with(campaign, describe, 1.0)
}

/// the main thread: everything it does between two campaigns (known-finding probes, golden self-tests,
/// merging of results) counts as one "case"; campaign() / enumerate() bump its counter on entry and exit
pub fn watch_main() {
    let g = watch_register_with("main", Box::new(|| json!("main thread outside the campaigns: known-finding probes, oracle self-test or merging of results")), 5.0);
    g.0.seq.fetch_add(1, std::sync::atomic::Ordering::Relaxed);
    *MAIN_SLOT.lock().unwrap() = Some(g.0.clone());
    std::mem::forget(g);
}

fn bump_main() {
    if let Ok(m) = MAIN_SLOT.lock() {
        if let Some(s) = m.as_ref() {
            s.seq.fetch_add(1, std::sync::atomic::Ordering::Relaxed);
        }
    }
}

pub fn watch_register_with(campaign: &str, describe: Box<dyn Fn() -> Value + Send + Sync>, factor: f64) -> WatchGuard {
    let mut clock: libc::clockid_t = 0;
    unsafe {
        libc::pthread_getcpuclockid(libc::pthread_self(), &mut clock);
    }
    let slot = std::sync::Arc::new(WatchSlot { clock, seq: std::sync::atomic::AtomicU64::new(0), campaign: campaign.to_string(), describe, factor });
    WATCH.lock().unwrap().push(slot.clone());
    WATCH_ON.call_once(|| {
        std::thread::spawn(watchdog_loop);
    });
    WatchGuard(slot)
}

fn clock_secs(c: libc::clockid_t) -> Option<f64> {
    let mut ts = libc::timespec { tv_sec: 0, tv_nsec: 0 };
    let r = unsafe { libc::clock_gettime(c, &mut ts) };
    if r == 0 {
        Some(ts.tv_sec as f64 + ts.tv_nsec as f64 * 1e-9)
    } else {
        None
    }
}

fn watchdog_loop() {
    use std::sync::atomic::Ordering::Relaxed;
    // per slot (by pointer): (seq seen, cpu when that seq was first seen)
    let mut seen: std::collections::HashMap<usize, (u64, f64)> = std::collections::HashMap::new();
    let limit = hang_cpu_limit();
    loop {
        std::thread::sleep(std::time::Duration::from_millis(500));
        let slots: Vec<std::sync::Arc<WatchSlot>> = WATCH.lock().map(|w| w.clone()).unwrap_or_default();
        let mut live = HashSet::new();
        for s in &slots {
            let key = std::sync::Arc::as_ptr(s) as usize;
            live.insert(key);
            let seq = s.seq.load(Relaxed);
            let cpu = match clock_secs(s.clock) {
                Some(c) => c,
                None => continue,
            };
            match seen.get(&key) {
                Some((q, c0)) if *q == seq && seq > 0 => {
                    if cpu - c0 > limit * s.factor {
                        // make sure it is still the same case, then report
                        let case = (s.describe)();
                        if s.seq.load(Relaxed) == seq {
                            hang_exit(&s.campaign, case, cpu - c0);
                        }
                    }
                }
                _ => {
                    seen.insert(key, (seq, cpu));
                }
            }
        }
        seen.retain(|k, _| live.contains(k));
    }
}

fn hang_exit(campaign: &str, case: Value, cpu: f64) -> ! {
    // a regression file that hangs: report the campaign and case it holds
    let (campaign, case) = match (campaign, case.get("campaign").and_then(|c| c.as_str()), case.get("case")) {
        ("regress", Some(c), Some(k)) => (c.to_string(), k.clone()),
        _ => (campaign.to_string(), case),
    };
    let campaign = campaign.as_str();
    let prop = WATCH_PROP.lock().map(|p| p.clone()).unwrap_or_default();
    let dir = format!("{}/work/replays", crate::findings::verif_dir());
    let _ = std::fs::create_dir_all(&dir);
    let path = format!("{}/{}-{}-hang.json", dir, prop, campaign);
    let msg = format!("one case of campaign {:?} has used {:.0} s of CPU time and has not returned (limit {} s; the checks run thousands of cases per second)", campaign, cpu, hang_cpu_limit());
    let body = json!({"property": prop, "campaign": campaign, "check": "hang", "message": msg, "case": case});
    let _ = std::fs::write(&path, serde_json::to_string_pretty(&body).unwrap_or_default());
    let short: String = serde_json::to_string(&case).unwrap_or_default().chars().take(300).collect();
    if prop == "C06" {
        eprintln!("[C06] {} / hang: {}: {}", campaign, msg, short);
        println!("VIOLATION property=C06 replay={}", path);
        let ev = json!({"property_id": "C06", "tier": "quick", "seed": 0, "level": "exploration", "wall_s": cpu, "violations": 1,
            "coverage": {"evaluations": 1, "distinct_nontrivial": 1, "rule": "the run was ended by the hang watch: one case exceeded the CPU-time limit", "samples": [case], "explanation": msg}});
        let _ = std::fs::create_dir_all(format!("{}/evidence", crate::findings::verif_dir()));
        let _ = std::fs::write(format!("{}/evidence/C06.json", crate::findings::verif_dir()), serde_json::to_string_pretty(&ev).unwrap_or_default());
        std::process::exit(1);
    }
    eprintln!("[{}] inconclusive: {}: {} - a hang of the code under test is C06's property (run ./run.sh C06 quick); case saved in {}", prop, msg, short, path);
    std::process::exit(2);
}

/// Special message prefix: a check can signal "infrastructure, not violation".
pub const INCONCLUSIVE: &str = "INCONCLUSIVE:";

fn derive_seed(seed: u64, prop: &str, name: &str, shard: usize) -> u64 {
    let mut h = DefaultHasher::new();
    (seed, prop, name, shard as u64).hash(&mut h);
    h.finish()
}

/// Run `check` over `total` cases drawn from `strat()`, sharded over `cfg.threads` threads.
/// Each shard is a proptest TestRunner with a seed derived from (VERIF_SEED, property, campaign,
/// shard), so a run is a pure function of the tree and the seed.  The first failure of each shard
/// is shrunk by proptest and re-executed once (stats frozen) to obtain the structured failure.
pub fn campaign<C, S, MK, F>(cfg: &RunCfg, prop: &str, name: &str, total: u64, mk: MK, check: F) -> CampaignOut
where
    C: std::fmt::Debug + Clone + Serialize + serde::de::DeserializeOwned + Send + 'static,
    S: Strategy<Value = C>,
    MK: Fn() -> S + Sync,
    F: Fn(&C, &mut Stats) -> Result<(), Failure> + Sync,
{
    bump_main();
    let threads = cfg.threads.max(1);
    let per = ((total + threads as u64 - 1) / threads as u64).max(1);
    let mut out = CampaignOut::default();
    let results: Vec<(Stats, Option<Failure>)> = std::thread::scope(|sc| {
        let mut hs = vec![];
        for shard in 0..threads {
            let mk = &mk;
            let check = &check;
            let seed = derive_seed(cfg.seed, prop, name, shard);
            hs.push(sc.spawn(move || {
                let config = Config {
                    cases: per as u32,
                    rng_seed: RngSeed::Fixed(seed),
                    failure_persistence: None,
                    max_shrink_iters: 3_000,
                    max_global_rejects: 1_000_000,
                    verbose: 0,
                    ..Config::default()
                };
                let mut runner = TestRunner::new(config);
                let stats = RefCell::new(Stats::default());
                let strat = mk();
                let cur: std::sync::Arc<std::sync::Mutex<Option<C>>> = std::sync::Arc::new(std::sync::Mutex::new(None));
                let cur2 = cur.clone();
                let wg = watch_register(name, Box::new(move || cur2.lock().ok().and_then(|g| g.as_ref().map(|c| serde_json::to_value(c).unwrap_or(Value::Null))).unwrap_or(Value::Null)));
                let res = runner.run(&strat, |c| {
                    if let Ok(mut g) = cur.lock() {
                        *g = Some(c.clone());
                    }
                    wg.0.seq.fetch_add(1, std::sync::atomic::Ordering::Relaxed);
                    let mut st = stats.borrow_mut();
                    st.case();
                    let r = catch_unwind(AssertUnwindSafe(|| check(&c, &mut st)));
                    match r {
                        Ok(Ok(())) => Ok(()),
                        Ok(Err(f)) => {
                            st.frozen = true;
                            Err(TestCaseError::fail(f.message))
                        }
                        Err(p) => {
                            st.frozen = true;
                            Err(TestCaseError::fail(format!("harness-level panic: {}", panic_text(&p))))
                        }
                    }
                });
                let failure = match res {
                    Ok(()) => None,
                    Err(TestError::Fail(reason, shrunk)) => {
                        let mut st = Stats::default();
                        st.frozen = true;
                        if let Ok(mut g) = cur.lock() {
                            *g = Some(shrunk.clone());
                        }
                        wg.0.seq.fetch_add(1, std::sync::atomic::Ordering::Relaxed);
                        let r = catch_unwind(AssertUnwindSafe(|| check(&shrunk, &mut st)));
                        let mut f = match r {
                            Ok(Err(f)) => f,
                            Ok(Ok(())) => Failure::new(
                                "unstable",
                                format!("{} failure did not reproduce on the shrunk case: {}", INCONCLUSIVE, reason),
                            ),
                            Err(p) => Failure::new("panic", format!("panic: {}", panic_text(&p))),
                        };
                        f.case = serde_json::to_value(&shrunk).unwrap_or(Value::Null);
                        f.campaign = name.to_string();
                        // second stage: greedy structural minimisation of the JSON form, same check must keep failing
                        if f.check != "unstable" && !f.case.is_null() {
                            let want = f.check.clone();
                            let run_one = |v: &Value| -> Option<Failure> {
                                let c: C = serde_json::from_value(v.clone()).ok()?;
                                if let Ok(mut g) = cur.lock() {
                                    *g = Some(c.clone());
                                }
                                wg.0.seq.fetch_add(1, std::sync::atomic::Ordering::Relaxed);
                                let mut st = Stats::default();
                                st.frozen = true;
                                match catch_unwind(AssertUnwindSafe(|| check(&c, &mut st))) {
                                    Ok(Err(f2)) => Some(f2),
                                    Ok(Ok(())) => None,
                                    Err(p) => Some(Failure::new("panic", format!("panic: {}", panic_text(&p)))),
                                }
                            };
                            let small = crate::minimize::minimize(f.case.clone(), 4000, |v| run_one(v).map(|f2| f2.check == want).unwrap_or(false));
                            if small != f.case {
                                if let Some(mut f2) = run_one(&small) {
                                    f2.case = small;
                                    f2.campaign = name.to_string();
                                    f = f2;
                                }
                            }
                        }
                        Some(f)
                    }
                    Err(TestError::Abort(reason)) => {
                        let mut f = Failure::new("abort", format!("{} proptest aborted: {}", INCONCLUSIVE, reason));
                        f.campaign = name.to_string();
                        Some(f)
                    }
                };
                let mut st = stats.into_inner();
                st.frozen = false;
                (st, failure)
            }));
        }
        hs.into_iter().map(|h| h.join().expect("shard thread")).collect()
    });
    bump_main();
    for (st, f) in results {
        out.stats.merge(st);
        if let Some(f) = f {
            if f.message.starts_with(INCONCLUSIVE) {
                out.inconclusive.push(format!("{}/{}: {}", prop, name, f.message));
            } else {
                out.failures.push(f);
            }
        }
    }
    out
}

/// Run a deterministic enumeration, sharded: `items(shard, nshards)` yields this shard's part.
pub fn enumerate<C, I, MK, F>(cfg: &RunCfg, name: &str, mk: MK, check: F) -> CampaignOut
where
    C: Serialize + Clone + Send + 'static,
    I: Iterator<Item = C>,
    MK: Fn(usize, usize) -> I + Sync,
    F: Fn(&C, &mut Stats) -> Result<(), Failure> + Sync,
{
    bump_main();
    let threads = cfg.threads.max(1);
    let mut out = CampaignOut::default();
    let results: Vec<(Stats, Option<Failure>)> = std::thread::scope(|sc| {
        let mut hs = vec![];
        for shard in 0..threads {
            let mk = &mk;
            let check = &check;
            hs.push(sc.spawn(move || {
                let mut st = Stats::default();
                let mut failure = None;
                let cur: std::sync::Arc<std::sync::Mutex<Option<C>>> = std::sync::Arc::new(std::sync::Mutex::new(None));
                let cur2 = cur.clone();
                let wg = watch_register(name, Box::new(move || cur2.lock().ok().and_then(|g| g.as_ref().map(|c| serde_json::to_value(c).unwrap_or(Value::Null))).unwrap_or(Value::Null)));
                for c in mk(shard, threads) {
                    if let Ok(mut g) = cur.lock() {
                        *g = Some(c.clone());
                    }
                    wg.0.seq.fetch_add(1, std::sync::atomic::Ordering::Relaxed);
                    st.case();
                    let r = catch_unwind(AssertUnwindSafe(|| check(&c, &mut st)));
                    let f = match r {
                        Ok(Ok(())) => continue,
                        Ok(Err(f)) => f,
                        Err(p) => Failure::new("panic", format!("panic: {}", panic_text(&p))),
                    };
                    let mut f = f;
                    f.case = serde_json::to_value(&c).unwrap_or(Value::Null);
                    f.campaign = name.to_string();
                    failure = Some(f);
                    break;
                }
                (st, failure)
            }));
        }
        hs.into_iter().map(|h| h.join().expect("shard thread")).collect()
    });
    bump_main();
    for (st, f) in results {
        out.stats.merge(st);
        if let Some(f) = f {
            if f.message.starts_with(INCONCLUSIVE) {
                out.inconclusive.push(format!("{}: {}", name, f.message));
            } else {
                out.failures.push(f);
            }
        }
    }
    out
}

pub fn panic_text(p: &Box<dyn std::any::Any + Send>) -> String {
    let msg = if let Some(s) = p.downcast_ref::<&'static str>() {
        s.to_string()
    } else if let Some(s) = p.downcast_ref::<String>() {
        s.clone()
    } else {
        "<non-string panic payload>".to_string()
    };
    let loc = LAST_PANIC_LOC.with(|l| l.borrow().clone());
    if loc.is_empty() {
        msg
    } else {
        format!("{} @ {}", msg, loc)
    }
}

thread_local! {
    pub static LAST_PANIC_LOC: RefCell<String> = RefCell::new(String::new());
}

/// Quiet panic hook that remembers the location of the last panic of this thread.
pub fn install_panic_hook() {
    std::panic::set_hook(Box::new(|info| {
        let loc = info.location().map(|l| format!("{}:{}", l.file(), l.line())).unwrap_or_default();
        let _ = LAST_PANIC_LOC.try_with(|l| {
            if let Ok(mut l) = l.try_borrow_mut() {
                *l = loc;
            }
        });
    }));
}

/// Call into the crate under test, converting a panic into Err(text).
pub fn guard<T>(f: impl FnOnce() -> T) -> Result<T, String> {
    catch_unwind(AssertUnwindSafe(f)).map_err(|p| panic_text(&p))
}

/// `fmt::Write` sink that fails after `cap` bytes: formatting into it must return Err (or Ok if it
/// fits) and must leave no trace in later formatting (no shared scratch state).
pub struct LimitedWriter {
    pub cap: usize,
    pub got: String,
}
impl std::fmt::Write for LimitedWriter {
    fn write_str(&mut self, s: &str) -> std::fmt::Result {
        if self.got.len() + s.len() > self.cap {
            return Err(std::fmt::Error);
        }
        self.got.push_str(s);
        Ok(())
    }
}

/// Display of `t` through failing writers, then again into a String: the final text must equal `expect`.
/// `same_value(text)`: does `text` parse back to a value equal to `t`?  (The round-trip properties are about
/// what the printed form *means*; a formatter flag may legitimately change its spelling - e.g. `{:#}` printing
/// `a || b` - as long as the result, padding removed, still reads as the same value.)
pub fn display_survives_failing_writer<T: std::fmt::Display>(t: &T, expect: &str, same_value: &dyn Fn(&str) -> bool) -> Result<(), String> {
    use std::fmt::Write;
    for cap in [0usize, 1, expect.len() / 2, expect.len().saturating_sub(1)] {
        let mut w = LimitedWriter { cap, got: String::new() };
        let r = write!(w, "{}", t);
        if r.is_ok() && w.got != expect {
            return Err(format!("writing into a {}-byte sink reported success with {:?}", cap, w.got));
        }
        if !expect.starts_with(&w.got) {
            return Err(format!("a {}-byte sink received {:?}, not a prefix of {:?}", cap, w.got, expect));
        }
        let again = t.to_string();
        if again != expect {
            return Err(format!("after a failed write into a {}-byte sink the next to_string() gives {:?} instead of {:?}", cap, again, expect));
        }
    }
    // width / alignment / sign / zero / alternate flags: the output, blank padding removed, is either the plain
    // text or another spelling that parses back to the same value
    for (spec, got) in [
        (">1", format!("{:>1}", t)),
        (">40", format!("{:>40}", t)),
        ("<40", format!("{:<40}", t)),
        ("^45", format!("{:^45}", t)),
        ("012", format!("{:012}", t)),
        ("+", format!("{:+}", t)),
        ("#", format!("{:#}", t)),
    ] {
        let trimmed = got.trim_matches(' ');
        if trimmed != expect && !same_value(trimmed) {
            return Err(format!("format!(\"{{:{}}}\") gives {:?}: with the blank padding removed this is neither the plain text {:?} nor a text that parses back to the same value", spec, got, expect));
        }
    }
    Ok(())
}

pub fn sample_json<T: Serialize>(t: &T) -> Value {
    serde_json::to_value(t).unwrap_or(json!(null))
}
