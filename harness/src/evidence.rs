use crate::engine::{PropRun, RunCfg, Tier};
use serde_json::{json, Value};

pub fn write(id: &str, cfg: &RunCfg, run: &PropRun, wall_s: f64, extra: Value) -> std::io::Result<String> {
    let dir = format!("{}/evidence", crate::findings::verif_dir());
    std::fs::create_dir_all(&dir)?;
    let path = format!("{}/{}.json", dir, id);
    let st = &run.stats;
    let mut coverage = json!({
        "evaluations": st.evaluations,
        "cases_generated": st.cases,
        "distinct_nontrivial": st.nontrivial.len(),
        "rule": run.rule,
        "samples": st.samples,
        "classes": st.classes,
        "excluded_known": st.excluded_known,
        "known_finding_hits": st.known_hits,
        "dont_care": st.dont_care,
        "discarded": st.discarded,
        "exhaustive_subspaces": st.exhaustive_subspaces,
        "notes": st.notes,
        "threads": cfg.threads,
    });
    if let (Some(c), Some(e)) = (coverage.as_object_mut(), extra.as_object()) {
        for (k, v) in e {
            c.insert(k.clone(), v.clone());
        }
    }
    let ev = json!({
        "property_id": id,
        "tier": match cfg.tier { Tier::Quick => "quick", Tier::Thorough => "thorough" },
        "seed": cfg.seed,
        "level": "exploration",
        "coverage": coverage,
        "assumptions": run.assumptions,
        "wall_s": wall_s,
        "violations": run.failures.len(),
        "known_findings_reported": run.known_lines,
        "inconclusive": run.inconclusive,
    });
    std::fs::write(&path, serde_json::to_string_pretty(&ev).unwrap())?;
    Ok(path)
}
