//! Probe versions (DESIGN 3.5): pointwise comparison is only as good as the points.
use crate::model::version::*;
use std::collections::HashSet;

fn clamp(x: u64) -> u64 {
    x.min(max_int())
}

fn tag_before(id: &MId) -> Option<MId> {
    match id {
        MId::Num(0) => None,
        MId::Num(n) => Some(MId::Num(n - 1)),
        MId::Str(s) => {
            // something that sorts before s: a numeric identifier always does
            let _ = s;
            Some(MId::Num(u64::MAX))
        }
    }
}

fn tag_after(id: &MId) -> MId {
    match id {
        MId::Num(n) if *n < u64::MAX => MId::Num(n + 1),
        MId::Num(_) => MId::Str("-".into()),
        MId::Str(s) => MId::Str(format!("{}0", s)),
    }
}

/// Probes around one bound / comparator version.
pub fn around(b: &MVersion, out: &mut Vec<MVersion>) {
    let b = b.strip_build();
    let (ma, mi, pa) = b.tuple();
    let rel = |a: u64, b: u64, c: u64| MVersion::new(clamp(a), clamp(b), clamp(c));
    let pre0 = |a: u64, b: u64, c: u64| MVersion::new(clamp(a), clamp(b), clamp(c)).with_pre(vec![MId::Num(0)]);
    let tagged = |a: u64, b: u64, c: u64, t: &str| MVersion::new(clamp(a), clamp(b), clamp(c)).with_pre(vec![MId::Str(t.to_string())]);
    out.push(b.clone());
    out.push(b.successor());
    out.push(rel(ma, mi, pa));
    out.push(pre0(ma, mi, pa));
    out.push(tagged(ma, mi, pa, "alpha"));
    out.push(tagged(ma, mi, pa, "zz"));
    // same version with build metadata
    out.push(b.clone().with_build(vec![MId::Str("b".into()), MId::Num(7)]));
    if b.is_pre() {
        // tags ordering before / after the bound's tag, a longer and a shorter list
        let mut before = b.clone();
        if let Some(t) = tag_before(before.pre.last().unwrap()) {
            *before.pre.last_mut().unwrap() = t;
            out.push(before);
        }
        let mut after = b.clone();
        let t = tag_after(after.pre.last().unwrap());
        *after.pre.last_mut().unwrap() = t;
        out.push(after);
        if b.pre.len() > 1 {
            let mut shorter = b.clone();
            shorter.pre.pop();
            out.push(shorter);
        }
    }
    // neighbouring tuples: patch, minor, major +-1, each release, -0 and tagged
    let mut neigh = vec![(ma, mi, pa.saturating_add(1))];
    if pa > 0 {
        neigh.push((ma, mi, pa - 1));
    }
    neigh.push((ma, mi.saturating_add(1), 0));
    neigh.push((ma, mi.saturating_add(1), pa));
    if mi > 0 {
        neigh.push((ma, mi - 1, pa));
        neigh.push((ma, mi - 1, max_int()));
    }
    neigh.push((ma.saturating_add(1), 0, 0));
    neigh.push((ma.saturating_add(1), mi, pa));
    if ma > 0 {
        neigh.push((ma - 1, mi, pa));
        neigh.push((ma - 1, max_int(), max_int()));
    }
    for (a, b2, c) in neigh {
        if a > max_int() || b2 > max_int() || c > max_int() {
            continue;
        }
        out.push(rel(a, b2, c));
        out.push(pre0(a, b2, c));
        out.push(tagged(a, b2, c, "beta"));
    }
}

/// The probe list for a case: around every interesting version, plus the global corners and
/// `extra` (random versions chosen by the generator).  De-duplicated, order preserved.
pub fn probes(interesting: &[MVersion], extra: &[MVersion]) -> Vec<MVersion> {
    let mut out = vec![
        MVersion::new(0, 0, 0).with_pre(vec![MId::Num(0)]),
        MVersion::new(0, 0, 0),
        MVersion::new(0, 0, 1),
        MVersion::new(max_int(), max_int(), max_int()),
    ];
    for v in interesting {
        // keep probes inside the stated domain (components <= MAX)
        let mut w = v.clone();
        w.major = clamp(w.major);
        w.minor = clamp(w.minor);
        w.patch = clamp(w.patch);
        around(&w, &mut out);
        if *v != w {
            // the bound itself is outside the domain (MAX+1 after desugaring): probe just below
            out.push(MVersion::new(clamp(v.major), clamp(v.minor), clamp(v.patch)));
        }
    }
    for e in extra {
        if e.major <= max_int() && e.minor <= max_int() && e.patch <= max_int() {
            out.push(e.clone());
        }
    }
    let mut seen = HashSet::new();
    out.retain(|v| seen.insert(v.clone()));
    out
}
