//! npm range semantics on the generator's AST, written from node-semver's README
//! ("Advanced Range Syntax", "Prerelease Tags") -- not from the crate under test.
use crate::gen::range_ast::*;
use crate::model::version::*;
use std::cmp::Ordering;

#[derive(Clone, Copy, Debug, PartialEq, Eq, Hash)]
pub enum COp {
    Lt,
    Le,
    Gt,
    Ge,
    Eq,
}

#[derive(Clone, Debug, PartialEq, Eq, Hash)]
pub struct Cmp {
    pub op: COp,
    pub v: MVersion,
}

impl Cmp {
    pub fn new(op: COp, v: MVersion) -> Cmp {
        Cmp { op, v }
    }
    pub fn test(&self, x: &MVersion) -> bool {
        let c = cmp_semver(x, &self.v);
        match self.op {
            COp::Lt => c == Ordering::Less,
            COp::Le => c != Ordering::Greater,
            COp::Gt => c == Ordering::Greater,
            COp::Ge => c != Ordering::Less,
            COp::Eq => c == Ordering::Equal,
        }
    }
    pub fn text(&self) -> String {
        let o = match self.op {
            COp::Lt => "<",
            COp::Le => "<=",
            COp::Gt => ">",
            COp::Ge => ">=",
            COp::Eq => "=",
        };
        format!("{}{}", o, self.v.text())
    }
}

/// One alternative after desugaring: comparators that must all hold.  An empty list is `*`.
pub type CmpSet = Vec<Cmp>;

fn zero_pre() -> Vec<MId> {
    vec![MId::Num(0)]
}
fn rel(a: u64, b: u64, c: u64) -> MVersion {
    MVersion::new(a, b, c)
}
fn rel0(a: u64, b: u64, c: u64) -> MVersion {
    MVersion::new(a, b, c).with_pre(zero_pre())
}
/// `*` := `>=0.0.0` (README: "Any non-prerelease version satisfies"); node drops the comparator,
/// the difference is confined to prereleases of 0.0.0 and handled by `dont_care`.
pub fn any() -> CmpSet {
    vec![Cmp::new(COp::Ge, rel(0, 0, 0))]
}
/// "<0.0.0-0": the set nothing satisfies
pub fn nothing() -> CmpSet {
    vec![Cmp::new(COp::Lt, rel0(0, 0, 0))]
}

/// npm reading of a partial: after a wildcard every later component is a wildcard too, and a
/// qualifier counts only on a fully numeric partial.
pub fn norm(p: &Partial) -> (Option<u64>, Option<u64>, Option<u64>, Vec<MId>) {
    let c = |i: usize| p.comps.get(i).and_then(|c| c.num());
    let (mut a, mut b, mut d) = (c(0), c(1), c(2));
    if a.is_none() {
        b = None;
        d = None;
    } else if b.is_none() {
        d = None;
    }
    if a.is_none() {
        a = None;
    }
    let pre = if d.is_some() { p.eff_pre().iter().map(|t| MId::from_text(t)).collect() } else { vec![] };
    (a, b, d, pre)
}

pub fn desugar_tok(op: Op, p: &Partial) -> CmpSet {
    let (ma, mi, pa, pre) = norm(p);
    match op {
        Op::Tilde | Op::TildeGt => match (ma, mi, pa) {
            (None, _, _) => any(),
            (Some(a), None, _) => vec![Cmp::new(COp::Ge, rel(a, 0, 0)), Cmp::new(COp::Lt, rel0(a + 1, 0, 0))],
            (Some(a), Some(b), None) => vec![Cmp::new(COp::Ge, rel(a, b, 0)), Cmp::new(COp::Lt, rel0(a, b + 1, 0))],
            (Some(a), Some(b), Some(c)) => vec![Cmp::new(COp::Ge, rel(a, b, c).with_pre(pre)), Cmp::new(COp::Lt, rel0(a, b + 1, 0))],
        },
        Op::Caret => match (ma, mi, pa) {
            (None, _, _) => any(),
            (Some(a), None, _) => vec![Cmp::new(COp::Ge, rel(a, 0, 0)), Cmp::new(COp::Lt, rel0(a + 1, 0, 0))],
            (Some(a), Some(b), None) => {
                if a == 0 {
                    vec![Cmp::new(COp::Ge, rel(0, b, 0)), Cmp::new(COp::Lt, rel0(0, b + 1, 0))]
                } else {
                    vec![Cmp::new(COp::Ge, rel(a, b, 0)), Cmp::new(COp::Lt, rel0(a + 1, 0, 0))]
                }
            }
            (Some(a), Some(b), Some(c)) => {
                let lo = Cmp::new(COp::Ge, rel(a, b, c).with_pre(pre));
                let hi = if a > 0 {
                    rel0(a + 1, 0, 0)
                } else if b > 0 {
                    rel0(0, b + 1, 0)
                } else {
                    rel0(0, 0, c + 1)
                };
                vec![lo, Cmp::new(COp::Lt, hi)]
            }
        },
        Op::Bare | Op::Eq | Op::Lt | Op::Le | Op::Gt | Op::Ge => {
            let a = match ma {
                None => {
                    // `>x` / `<x` admit nothing, every other operator on x admits anything
                    return if op == Op::Gt || op == Op::Lt { nothing() } else { any() };
                }
                Some(a) => a,
            };
            if let (Some(b), Some(c)) = (mi, pa) {
                let cop = match op {
                    Op::Bare | Op::Eq => COp::Eq,
                    Op::Lt => COp::Lt,
                    Op::Le => COp::Le,
                    Op::Gt => COp::Gt,
                    _ => COp::Ge,
                };
                return vec![Cmp::new(cop, rel(a, b, c).with_pre(pre))];
            }
            // x-range under an operator
            match (op, mi) {
                (Op::Bare | Op::Eq, None) => vec![Cmp::new(COp::Ge, rel(a, 0, 0)), Cmp::new(COp::Lt, rel0(a + 1, 0, 0))],
                (Op::Bare | Op::Eq, Some(b)) => vec![Cmp::new(COp::Ge, rel(a, b, 0)), Cmp::new(COp::Lt, rel0(a, b + 1, 0))],
                (Op::Gt, None) => vec![Cmp::new(COp::Ge, rel(a + 1, 0, 0))],
                (Op::Gt, Some(b)) => vec![Cmp::new(COp::Ge, rel(a, b + 1, 0))],
                (Op::Le, None) => vec![Cmp::new(COp::Lt, rel0(a + 1, 0, 0))],
                (Op::Le, Some(b)) => vec![Cmp::new(COp::Lt, rel0(a, b + 1, 0))],
                (Op::Lt, None) => vec![Cmp::new(COp::Lt, rel0(a, 0, 0))],
                (Op::Lt, Some(b)) => vec![Cmp::new(COp::Lt, rel0(a, b, 0))],
                (Op::Ge, None) => vec![Cmp::new(COp::Ge, rel(a, 0, 0))],
                (Op::Ge, Some(b)) => vec![Cmp::new(COp::Ge, rel(a, b, 0))],
                _ => unreachable!(),
            }
        }
    }
}

/// None = the alternative holds no comparator at all and is dropped.
pub fn desugar_alt(alt: &Alt) -> Option<CmpSet> {
    match alt {
        Alt::Hyphen { lo, hi, .. } => {
            let mut out = vec![];
            if let Some(lo) = lo {
                let (a, b, c, pre) = norm(lo);
                match (a, b, c) {
                    (None, _, _) => out.extend(any()),
                    (Some(a), None, _) => out.push(Cmp::new(COp::Ge, rel(a, 0, 0))),
                    (Some(a), Some(b), None) => out.push(Cmp::new(COp::Ge, rel(a, b, 0))),
                    (Some(a), Some(b), Some(c)) => out.push(Cmp::new(COp::Ge, rel(a, b, c).with_pre(pre))),
                }
                let (a, b, c, pre) = norm(hi);
                match (a, b, c) {
                    (None, _, _) => {}
                    (Some(a), None, _) => out.push(Cmp::new(COp::Lt, rel0(a + 1, 0, 0))),
                    (Some(a), Some(b), None) => out.push(Cmp::new(COp::Lt, rel0(a, b + 1, 0))),
                    (Some(a), Some(b), Some(c)) => out.push(Cmp::new(COp::Le, rel(a, b, c).with_pre(pre))),
                }
                Some(out)
            } else {
                // ` - hi`: the lone '-' is an unparseable token, `hi` is an ordinary partial
                Some(desugar_tok(Op::Bare, hi))
            }
        }
        Alt::Simples { toks, .. } => {
            if toks.is_empty() {
                return Some(any()); // '' is *
            }
            let mut out = vec![];
            let mut valid = 0;
            for t in toks {
                if let Tok::Cmp { op, p, .. } = t {
                    valid += 1;
                    out.extend(desugar_tok(*op, p));
                }
            }
            if valid == 0 {
                None
            } else {
                Some(out)
            }
        }
    }
}

/// The comparator sets of the whole range; empty = no valid comparator anywhere.
pub fn desugar(ast: &RangeAst) -> Vec<CmpSet> {
    ast.alts.iter().filter_map(desugar_alt).collect()
}

pub fn in_all(set: &CmpSet, v: &MVersion) -> bool {
    set.iter().all(|c| c.test(v))
}

/// node-semver's testSet
pub fn admits_set(set: &CmpSet, v: &MVersion) -> bool {
    if !in_all(set, v) {
        return false;
    }
    if v.is_pre() {
        return set.iter().any(|c| c.v.is_pre() && c.v.tuple() == v.tuple());
    }
    true
}

pub fn admits(sets: &[CmpSet], v: &MVersion) -> bool {
    sets.iter().any(|s| admits_set(s, v))
}

/// the README spells `>=0.0.0` where node deletes the comparator; the two readings differ only for
/// prereleases of 0.0.0 when another comparator opts that tuple in (DESIGN 3.4 (f)): don't-care.
pub fn dont_care(sets: &[CmpSet], v: &MVersion) -> bool {
    if !(v.is_pre() && v.tuple() == (0, 0, 0)) {
        return false;
    }
    sets.iter().any(|s| s.iter().any(|c| c.op == COp::Ge && c.v.tuple() == (0, 0, 0) && !c.v.is_pre()) || s.is_empty())
}

/// Candidate versions among which the least satisfying one of a set must be (the order is
/// discrete: successor of a release a.b.c is a.b.(c+1)-0, of a prerelease p it is p.0).
pub fn candidates(set: &CmpSet) -> Vec<MVersion> {
    let mut out = vec![rel0(0, 0, 0), rel(0, 0, 0)];
    for c in set {
        let v = c.v.strip_build();
        out.push(v.clone());
        out.push(v.successor());
        out.push(v.release());
        out.push(rel0(v.major, v.minor, v.patch));
        out.push(rel(v.major, v.minor, v.patch.saturating_add(1)));
        out.push(rel0(v.major, v.minor, v.patch.saturating_add(1)));
    }
    out
}

/// Exact: the least version admitted by the set, if any.
pub fn least_of_set(set: &CmpSet) -> Option<MVersion> {
    let mut best: Option<MVersion> = None;
    let m = max_int();
    for c in candidates(set) {
        // the stated domain: components in [0, MAX_SAFE_INTEGER]
        if c.major > m || c.minor > m || c.patch > m {
            continue;
        }
        if admits_set(set, &c) {
            best = match best {
                None => Some(c),
                Some(b) => Some(if cmp_semver(&c, &b) == Ordering::Less { c } else { b }),
            };
        }
    }
    best
}

pub fn satisfiable(sets: &[CmpSet]) -> bool {
    sets.iter().any(|s| least_of_set(s).is_some())
}

pub fn least(sets: &[CmpSet]) -> Option<MVersion> {
    let mut best: Option<MVersion> = None;
    for s in sets {
        if let Some(c) = least_of_set(s) {
            best = match best {
                None => Some(c),
                Some(b) => Some(if cmp_semver(&c, &b) == Ordering::Less { c } else { b }),
            };
        }
    }
    best
}

pub fn sets_text(sets: &[CmpSet]) -> String {
    sets.iter()
        .map(|s| if s.is_empty() { "*".to_string() } else { s.iter().map(|c| c.text()).collect::<Vec<_>>().join(" ") })
        .collect::<Vec<_>>()
        .join(" || ")
}
