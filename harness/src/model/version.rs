//! Reference model of a semantic version, written from the SemVer 2.0.0 text and from
//! node-semver's documentation -- never from the crate under test.
use serde::{Deserialize, Serialize};
use std::cmp::Ordering;

pub fn max_int() -> u64 {
    nodejs_semver::MAX_SAFE_INTEGER
}
pub fn max_len() -> usize {
    nodejs_semver::MAX_LENGTH
}

#[derive(Clone, Debug, PartialEq, Eq, Hash, Serialize, Deserialize)]
pub enum MId {
    Num(u64),
    Str(String),
}

impl MId {
    /// Interpretation of identifier text: all-digit text that fits u64 is numeric.
    pub fn from_text(t: &str) -> MId {
        if !t.is_empty() && t.bytes().all(|b| b.is_ascii_digit()) {
            if let Ok(n) = t.parse::<u64>() {
                return MId::Num(n);
            }
        }
        MId::Str(t.to_string())
    }
    pub fn text(&self) -> String {
        match self {
            MId::Num(n) => n.to_string(),
            MId::Str(s) => s.clone(),
        }
    }
    pub fn to_crate(&self) -> nodejs_semver::Identifier {
        match self {
            MId::Num(n) => nodejs_semver::Identifier::Numeric(*n),
            MId::Str(s) => nodejs_semver::Identifier::AlphaNumeric(s.clone()),
        }
    }
    pub fn from_crate(i: &nodejs_semver::Identifier) -> MId {
        match i {
            nodejs_semver::Identifier::Numeric(n) => MId::Num(*n),
            nodejs_semver::Identifier::AlphaNumeric(s) => MId::Str(s.clone()),
        }
    }
}

/// SemVer section 11.4: numeric < alphanumeric, numerics by value, alphanumerics by ASCII order.
pub fn cmp_id(a: &MId, b: &MId) -> Ordering {
    match (a, b) {
        (MId::Num(x), MId::Num(y)) => x.cmp(y),
        (MId::Num(_), MId::Str(_)) => Ordering::Less,
        (MId::Str(_), MId::Num(_)) => Ordering::Greater,
        (MId::Str(x), MId::Str(y)) => {
            // ASCII sort order == byte-wise comparison
            let (xb, yb) = (x.as_bytes(), y.as_bytes());
            let n = xb.len().min(yb.len());
            for i in 0..n {
                if xb[i] != yb[i] {
                    return if xb[i] < yb[i] { Ordering::Less } else { Ordering::Greater };
                }
            }
            xb.len().cmp(&yb.len())
        }
    }
}

pub fn cmp_pre(a: &[MId], b: &[MId]) -> Ordering {
    match (a.is_empty(), b.is_empty()) {
        (true, true) => return Ordering::Equal,
        (true, false) => return Ordering::Greater, // release above its prereleases
        (false, true) => return Ordering::Less,
        _ => {}
    }
    let n = a.len().min(b.len());
    for i in 0..n {
        let c = cmp_id(&a[i], &b[i]);
        if c != Ordering::Equal {
            return c;
        }
    }
    a.len().cmp(&b.len()) // a strict prefix is lower
}

#[derive(Clone, Debug, PartialEq, Eq, Hash, Serialize, Deserialize)]
pub struct MVersion {
    pub major: u64,
    pub minor: u64,
    pub patch: u64,
    pub pre: Vec<MId>,
    pub build: Vec<MId>,
}

impl MVersion {
    pub fn new(major: u64, minor: u64, patch: u64) -> Self {
        MVersion { major, minor, patch, pre: vec![], build: vec![] }
    }
    pub fn with_pre(mut self, pre: Vec<MId>) -> Self {
        self.pre = pre;
        self
    }
    pub fn with_build(mut self, b: Vec<MId>) -> Self {
        self.build = b;
        self
    }
    pub fn tuple(&self) -> (u64, u64, u64) {
        (self.major, self.minor, self.patch)
    }
    pub fn is_pre(&self) -> bool {
        !self.pre.is_empty()
    }
    pub fn release(&self) -> MVersion {
        MVersion::new(self.major, self.minor, self.patch)
    }
    pub fn strip_build(&self) -> MVersion {
        let mut v = self.clone();
        v.build.clear();
        v
    }
    pub fn text(&self) -> String {
        let mut s = format!("{}.{}.{}", self.major, self.minor, self.patch);
        for (i, id) in self.pre.iter().enumerate() {
            s.push(if i == 0 { '-' } else { '.' });
            s.push_str(&id.text());
        }
        for (i, id) in self.build.iter().enumerate() {
            s.push(if i == 0 { '+' } else { '.' });
            s.push_str(&id.text());
        }
        s
    }
    pub fn to_crate(&self) -> nodejs_semver::Version {
        nodejs_semver::Version {
            major: self.major,
            minor: self.minor,
            patch: self.patch,
            pre_release: self.pre.iter().map(|i| i.to_crate()).collect(),
            build: self.build.iter().map(|i| i.to_crate()).collect(),
        }
    }
    pub fn from_crate(v: &nodejs_semver::Version) -> MVersion {
        MVersion {
            major: v.major,
            minor: v.minor,
            patch: v.patch,
            pre: v.pre_release.iter().map(MId::from_crate).collect(),
            build: v.build.iter().map(MId::from_crate).collect(),
        }
    }
    /// The next version in the (discrete) precedence order, ignoring build metadata:
    /// successor of a release a.b.c is a.b.(c+1)-0, of a prerelease p it is p.0.
    pub fn successor(&self) -> MVersion {
        if self.is_pre() {
            let mut v = self.strip_build();
            v.pre.push(MId::Num(0));
            v
        } else {
            MVersion::new(self.major, self.minor, self.patch.saturating_add(1)).with_pre(vec![MId::Num(0)])
        }
    }
}

/// SemVer 2.0.0 section 11 precedence.
pub fn cmp_semver(a: &MVersion, b: &MVersion) -> Ordering {
    a.major
        .cmp(&b.major)
        .then(a.minor.cmp(&b.minor))
        .then(a.patch.cmp(&b.patch))
        .then_with(|| cmp_pre(&a.pre, &b.pre))
}

// ------------------------------------------------------------------------------------------
// Recogniser for version text (C05 / C12 / C17)

#[derive(Clone, Debug, PartialEq, Eq)]
pub enum Verdict {
    /// canonical shape: must be accepted with exactly these fields
    Must(Denoted),
    /// documented loose spelling: acceptance is left open, but if accepted the fields are these
    May(Denoted),
    /// must be rejected
    Reject,
}

/// What a version text denotes.  Identifiers are kept as text; `id_ok` decides whether a crate
/// identifier is an acceptable reading of that text.
#[derive(Clone, Debug, PartialEq, Eq)]
pub struct Denoted {
    pub major: u64,
    pub minor: u64,
    pub patch: u64,
    pub pre: Vec<String>,
    pub build: Vec<String>,
}

impl Denoted {
    pub fn to_model(&self) -> MVersion {
        MVersion {
            major: self.major,
            minor: self.minor,
            patch: self.patch,
            pre: self.pre.iter().map(|t| MId::from_text(t)).collect(),
            build: self.build.iter().map(|t| MId::from_text(t)).collect(),
        }
    }
}

/// Is the crate identifier `got` an acceptable reading of identifier text `t`?
/// all-digit text that fits u64 without leading zeros: exactly Numeric(value);
/// all-digit text with leading zeros that fits u64: the same number (zero padding does not change a number);
/// all-digit text that overflows u64: any identifier that prints as the text or numerically equal text;
/// anything else: exactly AlphaNumeric(text).
pub fn id_ok(t: &str, got: &nodejs_semver::Identifier) -> bool {
    use nodejs_semver::Identifier::*;
    let all_digits = !t.is_empty() && t.bytes().all(|b| b.is_ascii_digit());
    if all_digits {
        match t.parse::<u64>() {
            // a digit-only identifier denotes that number, zero-padded or not (node-semver's loose
            // reading, and what precedence "numerics by value" needs)
            Ok(n) => matches!(got, Numeric(m) if *m == n),
            Err(_) => match got {
                Numeric(_) => false,
                AlphaNumeric(s) => s == t,
            },
        }
    } else {
        matches!(got, AlphaNumeric(s) if s == t)
    }
}

fn is_id_char(b: u8) -> bool {
    b.is_ascii_alphanumeric() || b == b'-'
}

/// Strict core: `num.num.num(-id(.id)*)?(\+id(.id)*)?` over the whole of `s`.
/// `hyphenless`: the prerelease may be written without its hyphen (then its first char is a letter).
/// Returns None if `s` is not of that shape or a component exceeds MAX_SAFE_INTEGER.
fn parse_core(s: &str, allow_hyphenless: bool) -> Option<(Denoted, bool)> {
    let b = s.as_bytes();
    let mut i = 0;
    let mut nums = [0u64; 3];
    for k in 0..3 {
        let st = i;
        while i < b.len() && b[i].is_ascii_digit() {
            i += 1;
        }
        if i == st {
            return None;
        }
        let n: u64 = match s[st..i].parse::<u64>() {
            Ok(n) => n,
            Err(_) => return None,
        };
        if n > max_int() {
            return None;
        }
        nums[k] = n;
        if k < 2 {
            if i < b.len() && b[i] == b'.' {
                i += 1;
            } else {
                return None;
            }
        }
    }
    let mut pre = vec![];
    let mut build = vec![];
    let mut used_hyphenless = false;
    // prerelease
    if i < b.len() && b[i] != b'+' {
        if b[i] == b'-' {
            i += 1;
        } else if allow_hyphenless && b[i].is_ascii_alphabetic() {
            used_hyphenless = true;
        } else {
            return None;
        }
        loop {
            let st = i;
            while i < b.len() && is_id_char(b[i]) {
                i += 1;
            }
            if i == st {
                return None;
            }
            pre.push(s[st..i].to_string());
            if i < b.len() && b[i] == b'.' {
                i += 1;
            } else {
                break;
            }
        }
    }
    if i < b.len() {
        if b[i] != b'+' {
            return None;
        }
        i += 1;
        loop {
            let st = i;
            while i < b.len() && is_id_char(b[i]) {
                i += 1;
            }
            if i == st {
                return None;
            }
            build.push(s[st..i].to_string());
            if i < b.len() && b[i] == b'.' {
                i += 1;
            } else {
                break;
            }
        }
    }
    if i != b.len() {
        return None;
    }
    Some((Denoted { major: nums[0], minor: nums[1], patch: nums[2], pre, build }, used_hyphenless))
}

/// "blank" in the POSIX sense: space and horizontal tab (line breaks are not blanks)
fn is_blank(c: char) -> bool {
    c == ' ' || c == '\t'
}

/// Three-class verdict for `Version::parse(s)`.
pub fn classify(s: &str) -> Verdict {
    if s.len() > max_len() {
        return Verdict::Reject;
    }
    if let Some((d, _)) = parse_core(s, false) {
        return Verdict::Must(d);
    }
    // loose spellings: surrounding blanks, leading v/V (optionally followed by blanks), hyphenless prerelease
    let t = s.trim_matches(is_blank);
    let t = if t.starts_with('v') || t.starts_with('V') { t[1..].trim_start_matches(is_blank) } else { t };
    if let Some((d, _)) = parse_core(t, true) {
        return Verdict::May(d);
    }
    Verdict::Reject
}

/// Does some proper prefix of `s` form a canonical version (the "trailing junk" class)?
pub fn has_valid_proper_prefix(s: &str) -> bool {
    for (i, _) in s.char_indices().skip(1) {
        if parse_core(&s[..i], false).is_some() {
            return true;
        }
    }
    false
}

pub fn fields_match(d: &Denoted, v: &nodejs_semver::Version) -> bool {
    v.major == d.major
        && v.minor == d.minor
        && v.patch == d.patch
        && v.pre_release.len() == d.pre.len()
        && v.build.len() == d.build.len()
        && d.pre.iter().zip(v.pre_release.iter()).all(|(t, g)| id_ok(t, g))
        && d.build.iter().zip(v.build.iter()).all(|(t, g)| id_ok(t, g))
}

/// Parse canonical text printed by the crate (used by the interval model): strict, hyphen required.
pub fn parse_canonical(s: &str) -> Option<MVersion> {
    // no MAX check here: desugaring may print MAX+1 components (finding D11)
    let b = s.as_bytes();
    let mut i = 0;
    let mut nums = [0u64; 3];
    for k in 0..3 {
        let st = i;
        while i < b.len() && b[i].is_ascii_digit() {
            i += 1;
        }
        if i == st {
            return None;
        }
        nums[k] = s[st..i].parse::<u64>().ok()?;
        if k < 2 {
            if i < b.len() && b[i] == b'.' {
                i += 1;
            } else {
                return None;
            }
        }
    }
    let rest = &s[i..];
    let (pre_t, build_t) = match rest.find('+') {
        Some(p) => (&rest[..p], Some(&rest[p + 1..])),
        None => (rest, None),
    };
    let mut pre = vec![];
    if !pre_t.is_empty() {
        if !pre_t.starts_with('-') {
            return None;
        }
        for t in pre_t[1..].split('.') {
            if t.is_empty() || !t.bytes().all(is_id_char) {
                return None;
            }
            pre.push(MId::from_text(t));
        }
    }
    let mut build = vec![];
    if let Some(bt) = build_t {
        for t in bt.split('.') {
            if t.is_empty() || !t.bytes().all(is_id_char) {
                return None;
            }
            build.push(MId::from_text(t));
        }
    }
    Some(MVersion { major: nums[0], minor: nums[1], patch: nums[2], pre, build })
}

// ------------------------------------------------------------------------------------------
// node-semver 7.x `diff` (functions/diff.js), ported to the model.

pub fn diff_model(a: &MVersion, b: &MVersion) -> Option<&'static str> {
    let c = cmp_semver(a, b);
    if c == Ordering::Equal {
        return None;
    }
    let (high, low) = if c == Ordering::Greater { (a, b) } else { (b, a) };
    if low.is_pre() && !high.is_pre() {
        // prerelease -> release: the documented special cases of node-semver 7.6
        return Some(if low.minor == 0 && low.patch == 0 {
            "major"
        } else if high.patch != 0 {
            "patch"
        } else if high.minor != 0 {
            "minor"
        } else {
            "major"
        });
    }
    let field = if high.major != low.major {
        0
    } else if high.minor != low.minor {
        1
    } else if high.patch != low.patch {
        2
    } else {
        3
    };
    Some(match (field, high.is_pre()) {
        (0, false) => "major",
        (0, true) => "premajor",
        (1, false) => "minor",
        (1, true) => "preminor",
        (2, false) => "patch",
        (2, true) => "prepatch",
        _ => "prerelease",
    })
}
