//! Interval model of a `Range` value, recovered from its public canonical `Display`
//! (`>=a <b||<=c||d||*`) -- DESIGN 3.3.  Everything here is independent of the crate's algebra.
use crate::model::version::*;
use std::cmp::Ordering;

#[derive(Clone, Debug, PartialEq, Eq, Hash)]
pub struct Interval {
    /// (version, inclusive)
    pub lo: Option<(MVersion, bool)>,
    pub hi: Option<(MVersion, bool)>,
}

#[derive(Clone, Debug, PartialEq, Eq, Hash, Default)]
pub struct IModel {
    pub ivs: Vec<Interval>,
}

fn parse_interval(s: &str) -> Option<Interval> {
    let toks: Vec<&str> = s.split(|c| c == ' ' || c == '\t').filter(|t| !t.is_empty()).collect();
    if toks.is_empty() {
        return None;
    }
    if toks.len() == 1 && toks[0] == "*" {
        return Some(Interval { lo: None, hi: None });
    }
    let mut iv = Interval { lo: None, hi: None };
    for t in &toks {
        if let Some(r) = t.strip_prefix(">=") {
            if iv.lo.is_some() {
                return None;
            }
            iv.lo = Some((parse_canonical(r)?, true));
        } else if let Some(r) = t.strip_prefix("<=") {
            if iv.hi.is_some() {
                return None;
            }
            iv.hi = Some((parse_canonical(r)?, true));
        } else if let Some(r) = t.strip_prefix('>') {
            if iv.lo.is_some() {
                return None;
            }
            iv.lo = Some((parse_canonical(r)?, false));
        } else if let Some(r) = t.strip_prefix('<') {
            if iv.hi.is_some() {
                return None;
            }
            iv.hi = Some((parse_canonical(r)?, false));
        } else {
            if toks.len() != 1 {
                return None;
            }
            let v = parse_canonical(t.strip_prefix('=').unwrap_or(t))?;
            iv.lo = Some((v.clone(), true));
            iv.hi = Some((v, true));
        }
    }
    if toks.len() > 2 {
        return None;
    }
    Some(iv)
}

impl IModel {
    /// None = the printed form is not of the canonical shape (infrastructure problem, exit 2)
    pub fn from_display(s: &str) -> Option<IModel> {
        let mut ivs = vec![];
        for part in s.split("||") {
            ivs.push(parse_interval(part)?);
        }
        Some(IModel { ivs })
    }
    pub fn of(r: &nodejs_semver::Range) -> Result<IModel, String> {
        let s = r.to_string();
        IModel::from_display(&s).ok_or_else(|| format!("cannot read the printed range {:?}", s))
    }
    pub fn empty() -> IModel {
        IModel { ivs: vec![] }
    }
    pub fn in_bounds(&self, v: &MVersion) -> bool {
        self.ivs.iter().any(|i| i.in_bounds(v))
    }
    /// gate-aware satisfaction (the crate's documented rule: a prerelease needs a prerelease
    /// bound on the same tuple in the interval whose bounds it meets)
    pub fn satisfies(&self, v: &MVersion) -> bool {
        self.ivs.iter().any(|i| i.satisfies(v))
    }
    /// every version that occurs as a bound
    pub fn bound_versions(&self) -> Vec<MVersion> {
        let mut out = vec![];
        for i in &self.ivs {
            if let Some((v, _)) = &i.lo {
                out.push(v.clone());
            }
            if let Some((v, _)) = &i.hi {
                out.push(v.clone());
            }
        }
        out
    }
    /// exact: does any version lie within the bounds of some interval?
    pub fn nonempty(&self) -> bool {
        self.ivs.iter().any(|i| i.nonempty())
    }
    /// exact least version within bounds / satisfying
    pub fn least_satisfying(&self) -> Option<MVersion> {
        let mut best: Option<MVersion> = None;
        for i in &self.ivs {
            if let Some(c) = i.least_satisfying() {
                best = match best {
                    None => Some(c),
                    Some(b) => Some(if cmp_semver(&c, &b) == Ordering::Less { c } else { b }),
                };
            }
        }
        best
    }
    pub fn max_component(&self) -> u64 {
        self.bound_versions().iter().map(|v| v.major.max(v.minor).max(v.patch)).max().unwrap_or(0)
    }
}

impl Interval {
    pub fn in_bounds(&self, v: &MVersion) -> bool {
        if let Some((l, incl)) = &self.lo {
            let c = cmp_semver(v, l);
            if c == Ordering::Less || (c == Ordering::Equal && !incl) {
                return false;
            }
        }
        if let Some((h, incl)) = &self.hi {
            let c = cmp_semver(v, h);
            if c == Ordering::Greater || (c == Ordering::Equal && !incl) {
                return false;
            }
        }
        true
    }
    pub fn opts_in(&self, v: &MVersion) -> bool {
        let t = v.tuple();
        self.lo.as_ref().map(|(l, _)| l.is_pre() && l.tuple() == t).unwrap_or(false)
            || self.hi.as_ref().map(|(h, _)| h.is_pre() && h.tuple() == t).unwrap_or(false)
    }
    pub fn satisfies(&self, v: &MVersion) -> bool {
        self.in_bounds(v) && (!v.is_pre() || self.opts_in(v))
    }
    /// the least version within the bounds (ignoring the gate), exact by discreteness
    pub fn least_in_bounds(&self) -> Option<MVersion> {
        let m = match &self.lo {
            None => MVersion::new(0, 0, 0).with_pre(vec![MId::Num(0)]),
            Some((l, true)) => l.strip_build(),
            Some((l, false)) => l.successor(),
        };
        if self.in_bounds(&m) {
            Some(m)
        } else {
            None
        }
    }
    pub fn nonempty(&self) -> bool {
        self.least_in_bounds().is_some()
    }
    /// the position of the lower bound (least point at or above it, whether or not within the upper bound)
    pub fn least_in_bounds_or_lower(&self) -> MVersion {
        match &self.lo {
            None => MVersion::new(0, 0, 0).with_pre(vec![MId::Num(0)]),
            Some((l, true)) => l.strip_build(),
            Some((l, false)) => l.successor(),
        }
    }
    pub fn least_satisfying(&self) -> Option<MVersion> {
        let m = self.least_in_bounds()?;
        let mut cands = vec![m.clone(), m.release()];
        // the release of the tuple, and the opted-in tuples of the two bounds
        for b in [&self.lo, &self.hi].into_iter().flatten() {
            let v = &b.0;
            cands.push(v.strip_build());
            cands.push(v.successor());
            cands.push(v.release());
            cands.push(MVersion::new(v.major, v.minor, v.patch).with_pre(vec![MId::Num(0)]));
            cands.push(MVersion::new(v.major, v.minor, v.patch.saturating_add(1)));
        }
        cands.push(MVersion::new(m.major, m.minor, m.patch.saturating_add(1)));
        cands.push(MVersion::new(0, 0, 0));
        let mut best: Option<MVersion> = None;
        for c in cands {
            if self.satisfies(&c) {
                best = match best {
                    None => Some(c),
                    Some(b) => Some(if cmp_semver(&c, &b) == Ordering::Less { c } else { b }),
                };
            }
        }
        best
    }
}
