pub mod interval;
pub mod npm;
pub mod probes;
pub mod version;
