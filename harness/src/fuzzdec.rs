//! Decoders shared by the libFuzzer targets (fuzz/) and by `vcheck fuzz-replay`: bytes -> structured case.
use crate::gen::range_ast::*;
use crate::model::version::*;
use crate::props::c01;
use arbitrary::Unstructured;

pub fn decode_text(data: &[u8]) -> String {
    String::from_utf8_lossy(data).into_owned()
}

/// up to 4 strings separated by 0xFF bytes
pub fn decode_pool(data: &[u8]) -> Vec<String> {
    let mut out: Vec<String> = data.split(|b| *b == 0xFF).take(4).map(|p| String::from_utf8_lossy(p).into_owned()).collect();
    if out.is_empty() {
        out.push(String::new());
    }
    out
}

const NUMS: &[u64] = &[0, 1, 2, 3, 9, 10, 11];

fn num(u: &mut Unstructured) -> arbitrary::Result<u64> {
    let k = u.int_in_range(0..=9u8)?;
    Ok(match k {
        0..=6 => NUMS[k as usize],
        7 => max_int(),
        8 => max_int() - 1,
        _ => u.int_in_range(0..=max_int())?,
    })
}

fn partial(u: &mut Unstructured, under_op: bool, allow_misplaced: bool) -> arbitrary::Result<Partial> {
    let k = u.int_in_range(1..=3usize)?;
    let mut comps = vec![];
    for _ in 0..k {
        comps.push(Comp::Num { val: num(u)?, zeros: if u.ratio(1, 10)? { 1 } else { 0 } });
    }
    if u.ratio(1, 4)? {
        let min_start = if under_op && !allow_misplaced { 1 } else { 0 };
        if k > min_start {
            let start = u.int_in_range(min_start..=k - 1)?;
            for c in comps.iter_mut().skip(start) {
                *c = Comp::Wild(*u.choose(&['x', 'X', '*'])?);
            }
        }
    } else if allow_misplaced && u.ratio(1, 8)? {
        let i = u.int_in_range(0..=k - 1)?;
        comps[i] = Comp::Wild('x');
    }
    let wild = comps.iter().any(|c| c.is_wild());
    let qual_ok = k == 3 && (!wild || allow_misplaced);
    let pre = if qual_ok && u.ratio(2, 5)? { u.choose(PRE_POOL)?.iter().map(|s| s.to_string()).collect() } else { vec![] };
    let build = if qual_ok && u.ratio(1, 8)? { vec!["b".to_string()] } else { vec![] };
    Ok(Partial { v: u.ratio(1, 12)?, comps, pre, build, hyphenless: u.ratio(1, 5)? })
}

fn mversion(u: &mut Unstructured) -> arbitrary::Result<MVersion> {
    let pre = if u.ratio(1, 2)? { u.choose(PRE_POOL)?.iter().map(|s| MId::from_text(s)).collect() } else { vec![] };
    Ok(MVersion { major: num(u)?, minor: num(u)?, patch: num(u)?, pre, build: vec![] })
}

/// bytes -> C01 case (AST + extra probe versions); constructs of open findings are not generated
pub fn decode_ast_case(data: &[u8]) -> Option<c01::Case> {
    let mut u = Unstructured::new(data);
    let r: arbitrary::Result<c01::Case> = (|| {
        let wild = !crate::findings::is_open(c01::F_WILD);
        let hyph = !crate::findings::is_open(c01::F_HYPHEN);
        let empty = !crate::findings::is_open(c01::F_EMPTY);
        let nalts = u.int_in_range(1..=3usize)?;
        let mut alts = vec![];
        for _ in 0..nalts {
            if u.ratio(1, 7)? {
                let lo = if hyph && u.ratio(1, 10)? { None } else { Some(partial(&mut u, true, wild)?) };
                alts.push(Alt::Hyphen { lo, hi: partial(&mut u, true, wild)?, pad: (0, if u.ratio(1, 6)? { 1 } else { 0 }) });
            } else {
                let nt = if empty && nalts > 1 && u.ratio(1, 12)? { 0 } else { u.int_in_range(1..=3usize)? };
                let mut toks = vec![];
                for _ in 0..nt {
                    if u.ratio(1, 12)? {
                        toks.push(Tok::Garbage(u.choose(GARBAGE)?.to_string()));
                    } else {
                        let op = *u.choose(&Op::all())?;
                        toks.push(Tok::Cmp { op, blanks: if u.ratio(1, 4)? { 1 } else { 0 }, p: partial(&mut u, op != Op::Bare, wild)? });
                    }
                }
                let seps = (0..nt.saturating_sub(1)).map(|_| " ".to_string()).collect();
                alts.push(Alt::Simples { toks, seps });
            }
        }
        let ors = (0..nalts - 1).map(|i| ((i % 2) as u8, 1u8)).collect();
        let nv = u.int_in_range(0..=3usize)?;
        let mut extra = vec![];
        for _ in 0..nv {
            extra.push(mversion(&mut u)?);
        }
        let lead = if u.ratio(1, 10)? { " " } else { "" };
        let trail = if u.ratio(1, 10)? { " " } else { "" };
        Ok(c01::Case { ast: RangeAst { alts, ors, lead: lead.to_string(), trail: trail.to_string() }, extra })
    })();
    r.ok()
}

// --- algebra target (C07 C08 C09 C10 C11 C13 C15) ------------------------------------------------

use crate::gen::ranges::{and, interval_text_of, minus, sugar_text_of, tags, vpool_of, Expr};
use serde::{Deserialize, Serialize};

#[derive(Clone, Debug, Serialize, Deserialize)]
pub struct AlgCase {
    pub a: Expr,
    pub b: Expr,
    pub c: Expr,
    pub extra: Vec<MVersion>,
}

fn alg_comp(u: &mut Unstructured) -> arbitrary::Result<u64> {
    let cap = max_int() - 2;
    Ok(match u.int_in_range(0..=11u8)? {
        0..=8 => u.int_in_range(0..=2u64)?,
        9 => *u.choose(&[9u64, 10, 99, 255, 256, 65535, 65536, 4294967295, 4294967296])?,
        10 => cap - u.int_in_range(0..=2u64)?,
        _ => u.int_in_range(0..=cap)?,
    })
}

fn alg_leaf(u: &mut Unstructured, pool: &[MVersion]) -> arbitrary::Result<Expr> {
    if u.ratio(1, 25)? && crate::gen::ranges::any_leaf_usable() {
        return Ok(Expr::Any);
    }
    let n = pool.len();
    let nalts = if u.ratio(3, 5)? { 1 } else { u.int_in_range(2..=3usize)? };
    let mut alts = vec![];
    for _ in 0..nalts {
        let (i, j) = (u.int_in_range(0..=n - 1)?, u.int_in_range(0..=n - 1)?);
        if u.ratio(5, 6)? {
            alts.push(interval_text_of(pool, i, j, u.int_in_range(0..=11u8)?, u.arbitrary()?, u.arbitrary()?));
        } else {
            alts.push(sugar_text_of(pool, i, j, u.int_in_range(0..=11u8)?));
        }
    }
    Ok(Expr::Leaf(alts.join(" || ")))
}

fn alg_expr(u: &mut Unstructured, pool: &[MVersion], depth: u32) -> arbitrary::Result<Expr> {
    if depth == 0 || u.ratio(2, 5)? {
        return alg_leaf(u, pool);
    }
    let l = alg_expr(u, pool, depth - 1)?;
    let r = alg_expr(u, pool, depth - 1)?;
    Ok(if u.arbitrary()? { and(l, r) } else { minus(l, r) })
}

/// bytes -> three expression trees (depth <= 2) over one shared version pool + extra probes
pub fn decode_alg_case(data: &[u8]) -> Option<AlgCase> {
    let mut u = Unstructured::new(data);
    let r: arbitrary::Result<AlgCase> = (|| {
        let (a, b, c, d) = (alg_comp(&mut u)?, alg_comp(&mut u)?, alg_comp(&mut u)?, u.int_in_range(0..=3u64)?);
        let np = u.int_in_range(3..=8usize)?;
        let mut picks = vec![];
        for _ in 0..np {
            picks.push((u.int_in_range(0..=4usize)?, u.int_in_range(0..=4usize)?));
        }
        let pool = vpool_of(a, b, c, d, &picks);
        let ea = alg_expr(&mut u, &pool, 2)?;
        let eb = alg_expr(&mut u, &pool, 2)?;
        let ec = alg_expr(&mut u, &pool, 1)?;
        let tg = tags();
        let mut extra = vec![];
        for _ in 0..u.int_in_range(0..=3usize)? {
            let base = u.choose(&pool)?.clone();
            extra.push(MVersion::new(base.major, base.minor, base.patch + u.int_in_range(0..=1u64)?).with_pre(u.choose(&tg)?.clone()));
        }
        Ok(AlgCase { a: ea, b: eb, c: ec, extra })
    })();
    r.ok()
}

pub const ALG_PROPS: &[&str] = &["C07", "C08", "C09", "C10", "C11", "C13", "C15"];

/// the relations of the algebra properties on one decoded case; `only` restricts to one property.
/// Returns (property, replayable case, result) for every relation that ran.
pub fn check_alg(cs: &AlgCase, only: Option<&str>, st: &mut crate::engine::Stats) -> Vec<(&'static str, serde_json::Value, Result<(), crate::engine::Failure>)> {
    use crate::props::*;
    let want = |p: &str| only.map_or(true, |o| o == p);
    let mut out = vec![];
    let pair = c07::PairCase { a: cs.a.clone(), b: cs.b.clone(), extra: cs.extra.clone() };
    let pj = serde_json::to_value(&pair).unwrap();
    if want("C07") {
        out.push(("C07", pj.clone(), c07::check_pair(&pair, st)));
    }
    if want("C08") {
        out.push(("C08", pj.clone(), c08::check_pair(&pair, st)));
    }
    if want("C09") {
        out.push(("C09", pj.clone(), c09::check_pair(&pair, st)));
    }
    if want("C10") {
        out.push(("C10", pj.clone(), c10::check_pair(&pair, st)));
    }
    let exprs = [cs.a.clone(), and(cs.a.clone(), cs.b.clone()), minus(cs.a.clone(), cs.b.clone()), minus(cs.c.clone(), and(cs.a.clone(), cs.b.clone()))];
    if want("C11") {
        for e in &exprs {
            let c = c11::Case::Expr(e.clone());
            out.push(("C11", serde_json::to_value(&c).unwrap(), c11::check_case(&c, st)));
        }
    }
    if want("C13") {
        // as in C13's own campaign, `Range::any()` takes no part in the print/parse round trip: it is not
        // reachable from Range::parse and set operations, and its `*` re-parses to `>=0.0.0`
        for e in exprs.iter().filter(|e| !e.contains_any()) {
            let c = c13::Case::Expr(e.clone());
            out.push(("C13", serde_json::to_value(&c).unwrap(), c13::check_case(&c, st)));
        }
    }
    if want("C15") {
        let c = c15::Case { a: cs.a.clone(), b: cs.b.clone(), c: cs.c.clone(), extra: cs.extra.clone() };
        out.push(("C15", serde_json::to_value(&c).unwrap(), c15::check_case(&c, st)));
    }
    out
}
