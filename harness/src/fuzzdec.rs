//! Decoders shared by the libFuzzer targets (fuzz/) and by `vcheck fuzz-replay`: bytes -> structured case.
use crate::gen::range_ast::*;
use crate::model::version::*;
use crate::props::c01;
use arbitrary::Unstructured;

pub fn decode_text(data: &[u8]) -> String {
    String::from_utf8_lossy(data).into_owned()
}

/// up to 4 strings separated by 0xFF bytes
pub fn decode_pool(data: &[u8]) -> Vec<String> {
    let mut out: Vec<String> = data.split(|b| *b == 0xFF).take(4).map(|p| String::from_utf8_lossy(p).into_owned()).collect();
    if out.is_empty() {
        out.push(String::new());
    }
    out
}

const NUMS: &[u64] = &[0, 1, 2, 3, 9, 10, 11];

fn num(u: &mut Unstructured) -> arbitrary::Result<u64> {
    let k = u.int_in_range(0..=9u8)?;
    Ok(match k {
        0..=6 => NUMS[k as usize],
        7 => max_int(),
        8 => max_int() - 1,
        _ => u.int_in_range(0..=max_int())?,
    })
}

fn partial(u: &mut Unstructured, under_op: bool, allow_misplaced: bool) -> arbitrary::Result<Partial> {
    let k = u.int_in_range(1..=3usize)?;
    let mut comps = vec![];
    for _ in 0..k {
        comps.push(Comp::Num { val: num(u)?, zeros: if u.ratio(1, 10)? { 1 } else { 0 } });
    }
    if u.ratio(1, 4)? {
        let min_start = if under_op && !allow_misplaced { 1 } else { 0 };
        if k > min_start {
            let start = u.int_in_range(min_start..=k - 1)?;
            for c in comps.iter_mut().skip(start) {
                *c = Comp::Wild(*u.choose(&['x', 'X', '*'])?);
            }
        }
    } else if allow_misplaced && u.ratio(1, 8)? {
        let i = u.int_in_range(0..=k - 1)?;
        comps[i] = Comp::Wild('x');
    }
    let wild = comps.iter().any(|c| c.is_wild());
    let qual_ok = k == 3 && (!wild || allow_misplaced);
    let pre = if qual_ok && u.ratio(2, 5)? { u.choose(PRE_POOL)?.iter().map(|s| s.to_string()).collect() } else { vec![] };
    let build = if qual_ok && u.ratio(1, 8)? { vec!["b".to_string()] } else { vec![] };
    Ok(Partial { v: u.ratio(1, 12)?, comps, pre, build, hyphenless: u.ratio(1, 5)? })
}

fn mversion(u: &mut Unstructured) -> arbitrary::Result<MVersion> {
    let pre = if u.ratio(1, 2)? { u.choose(PRE_POOL)?.iter().map(|s| MId::from_text(s)).collect() } else { vec![] };
    Ok(MVersion { major: num(u)?, minor: num(u)?, patch: num(u)?, pre, build: vec![] })
}

/// bytes -> C01 case (AST + extra probe versions); constructs of open findings are not generated
pub fn decode_ast_case(data: &[u8]) -> Option<c01::Case> {
    let mut u = Unstructured::new(data);
    let r: arbitrary::Result<c01::Case> = (|| {
        let wild = !crate::findings::is_open(c01::F_WILD);
        let hyph = !crate::findings::is_open(c01::F_HYPHEN);
        let empty = !crate::findings::is_open(c01::F_EMPTY);
        let nalts = u.int_in_range(1..=3usize)?;
        let mut alts = vec![];
        for _ in 0..nalts {
            if u.ratio(1, 7)? {
                let lo = if hyph && u.ratio(1, 10)? { None } else { Some(partial(&mut u, true, wild)?) };
                alts.push(Alt::Hyphen { lo, hi: partial(&mut u, true, wild)?, pad: (0, if u.ratio(1, 6)? { 1 } else { 0 }) });
            } else {
                let nt = if empty && nalts > 1 && u.ratio(1, 12)? { 0 } else { u.int_in_range(1..=3usize)? };
                let mut toks = vec![];
                for _ in 0..nt {
                    if u.ratio(1, 12)? {
                        toks.push(Tok::Garbage(u.choose(GARBAGE)?.to_string()));
                    } else {
                        let op = *u.choose(&Op::all())?;
                        toks.push(Tok::Cmp { op, blanks: if u.ratio(1, 4)? { 1 } else { 0 }, p: partial(&mut u, op != Op::Bare, wild)? });
                    }
                }
                let seps = (0..nt.saturating_sub(1)).map(|_| " ".to_string()).collect();
                alts.push(Alt::Simples { toks, seps });
            }
        }
        let ors = (0..nalts - 1).map(|i| ((i % 2) as u8, 1u8)).collect();
        let nv = u.int_in_range(0..=3usize)?;
        let mut extra = vec![];
        for _ in 0..nv {
            extra.push(mversion(&mut u)?);
        }
        let lead = if u.ratio(1, 10)? { " " } else { "" };
        let trail = if u.ratio(1, 10)? { " " } else { "" };
        Ok(c01::Case { ast: RangeAst { alts, ors, lead: lead.to_string(), trail: trail.to_string() }, extra })
    })();
    r.ok()
}
