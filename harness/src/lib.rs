pub mod engine;
pub mod evidence;
pub mod findings;
pub mod golden;
pub mod model;
pub mod gen;
pub mod props;
pub mod tools;
