use serde_json::{json, Value};
use std::time::Instant;
use vcheck::engine::*;
use vcheck::{evidence, findings, props};

fn usage() -> ! {
    eprintln!("usage: vcheck <Cxx> <quick|thorough>\n       vcheck <Cxx> --replay FILE\n       vcheck list");
    std::process::exit(2)
}

fn main() {
    let args: Vec<String> = std::env::args().skip(1).collect();
    if args.is_empty() {
        usage();
    }
    install_panic_hook();
    if args[0] == "list" {
        for p in props::registry() {
            println!("{}", p.id);
        }
        return;
    }
    if let Some(code) = vcheck::tools::dispatch(&args) {
        std::process::exit(code);
    }
    // supervisor: the real work runs in a child process (`--inner`); a child killed by a signal (abort on
    // allocation failure, stack overflow in the code under test) cannot report for itself
    if !args.iter().any(|a| a == "--inner") && !args.iter().any(|a| a == "--replay") && std::env::var("VERIF_NO_SUPERVISOR").is_err() {
        std::process::exit(supervise(&args));
    }
    if args.iter().any(|a| a == "--inner") {
        // do not outlive the supervising parent (a caller that kills the parent on its own time limit must not
        // leave a spinning child behind)
        unsafe {
            libc::prctl(libc::PR_SET_PDEATHSIG, libc::SIGKILL);
        }
    }
    let args: Vec<String> = args.into_iter().filter(|a| a != "--inner").collect();
    let id = args[0].as_str();
    let reg = props::registry();
    let def = match reg.iter().find(|p| p.id == id) {
        Some(d) => d,
        None => {
            eprintln!("unknown property {}", id);
            std::process::exit(2)
        }
    };
    watch_property(id);
    if args.len() >= 3 && args[1] == "--replay" {
        std::process::exit(replay_file(def, &args[2]));
    }
    let tier = match args.get(1).map(|s| s.as_str()).or(std::env::var("VERIF_TIER").ok().as_deref()) {
        Some("thorough") => Tier::Thorough,
        Some("quick") | None => Tier::Quick,
        Some(o) => {
            eprintln!("unknown tier {}", o);
            std::process::exit(2)
        }
    };
    let seed = std::env::var("VERIF_SEED").ok().and_then(|s| s.trim().parse::<i64>().ok()).map(|v| v as u64).unwrap_or(0);
    let threads = std::env::var("VERIF_THREADS").ok().and_then(|s| s.parse().ok()).unwrap_or_else(|| {
        std::thread::available_parallelism().map(|n| n.get()).unwrap_or(4).min(16)
    });
    let scale = std::env::var("VERIF_SCALE").ok().and_then(|s| s.parse().ok()).unwrap_or(1.0);
    let cfg = RunCfg { tier, seed, threads, scale };
    let t0 = Instant::now();

    // regression replays first (strict): every file under regress/<id>/ must pass
    let mut run = PropRun::default();
    let mut regress_n = 0;
    let rdir = format!("{}/regress/{}", findings::verif_dir(), id);
    if let Ok(rd) = std::fs::read_dir(&rdir) {
        let mut files: Vec<_> = rd.filter_map(|e| e.ok()).map(|e| e.path()).filter(|p| p.extension().map(|x| x == "json").unwrap_or(false)).collect();
        files.sort();
        let cur: std::sync::Arc<std::sync::Mutex<serde_json::Value>> = std::sync::Arc::new(std::sync::Mutex::new(serde_json::Value::Null));
        let cur2 = cur.clone();
        let wg = watch_register("regress", Box::new(move || cur2.lock().map(|g| g.clone()).unwrap_or(serde_json::Value::Null)));
        for f in files {
            regress_n += 1;
            match load_replay(&f.to_string_lossy()) {
                Ok((campaign, case, _)) => {
                    if let Ok(mut g) = cur.lock() {
                        *g = json!({"regression_file": f.to_string_lossy(), "campaign": campaign, "case": case});
                    }
                    wg.0.seq.fetch_add(1, std::sync::atomic::Ordering::Relaxed);
                    let r = guard(|| (def.replay)(&campaign, &case));
                    let fail = match r {
                        Ok(Ok(())) => None,
                        Ok(Err(f)) => Some(f),
                        Err(p) => Some(Failure::new("panic", format!("panic: {}", p))),
                    };
                    if let Some(mut fl) = fail {
                        if fl.message.starts_with(INCONCLUSIVE) {
                            run.inconclusive.push(fl.message);
                        } else {
                            fl.case = case;
                            fl.campaign = campaign;
                            fl.message = format!("regression file {} fails again: {}", f.display(), fl.message);
                            run.failures.push(fl);
                        }
                    }
                }
                Err(e) => run.inconclusive.push(format!("cannot load {}: {}", f.display(), e)),
            }
        }
    }
    watch_main();
    let mut main_run = (def.run)(&cfg);
    main_run.failures.extend(run.failures);
    main_run.inconclusive.extend(run.inconclusive);
    let run = main_run;
    let wall = t0.elapsed().as_secs_f64();

    for l in &run.known_lines {
        println!("KNOWN-FINDING: property={} {}", id, l);
    }
    // write replay files
    let mut vio_lines = vec![];
    let wdir = format!("{}/work/replays", findings::verif_dir());
    let _ = std::fs::create_dir_all(&wdir);
    let mut seen = std::collections::BTreeSet::new();
    for f in &run.failures {
        if !seen.insert((f.campaign.clone(), f.check.clone())) {
            continue;
        }
        let path = format!("{}/{}-{}-{}-s{}.json", wdir, id, f.campaign, f.check, seed);
        let body = json!({"property": id, "campaign": f.campaign, "check": f.check, "message": f.message, "case": f.case, "seed": seed,
            "tier": format!("{:?}", tier)});
        let _ = std::fs::write(&path, serde_json::to_string_pretty(&body).unwrap());
        vio_lines.push(format!("VIOLATION property={} replay={}", id, path));
        eprintln!("[{}] {} / {}: {}", id, f.campaign, f.check, f.message);
    }
    let extra = json!({"regression_files_replayed": regress_n});
    match evidence::write(id, &cfg, &run, wall, extra) {
        Ok(_) => {}
        Err(e) => {
            eprintln!("cannot write evidence: {}", e);
            std::process::exit(2)
        }
    }
    println!(
        "[{}] tier={:?} seed={} cases={} evaluations={} distinct_nontrivial={} violations={} known_hits={:?} wall={:.1}s",
        id, tier, seed, run.stats.cases, run.stats.evaluations, run.stats.nontrivial.len(), run.failures.len(), run.stats.known_hits, wall
    );
    for l in &vio_lines {
        println!("{}", l);
    }
    if !vio_lines.is_empty() {
        std::process::exit(1);
    }
    if !run.inconclusive.is_empty() {
        for m in &run.inconclusive {
            eprintln!("[{}] inconclusive: {}", id, m);
        }
        std::process::exit(2);
    }
}

fn load_replay(path: &str) -> Result<(String, Value, Value), String> {
    let s = std::fs::read_to_string(path).map_err(|e| e.to_string())?;
    let v: Value = serde_json::from_str(&s).map_err(|e| e.to_string())?;
    let campaign = v.get("campaign").and_then(|c| c.as_str()).ok_or("no campaign")?.to_string();
    let case = v.get("case").cloned().ok_or("no case")?;
    Ok((campaign, case, v))
}

fn replay_file(def: &props::PropDef, path: &str) -> i32 {
    let (campaign, case, _) = match load_replay(path) {
        Ok(x) => x,
        Err(e) => {
            eprintln!("cannot load replay {}: {}", path, e);
            return 2;
        }
    };
    // the replayed case runs under the hang watch as well (a saved hang must end, not hang the replay)
    let shown = case.clone();
    let wg = watch_register(&campaign, Box::new(move || shown.clone()));
    wg.0.seq.fetch_add(1, std::sync::atomic::Ordering::Relaxed);
    match guard(|| (def.replay)(&campaign, &case)) {
        Ok(Ok(())) => {
            println!("[{}] replay {} passes", def.id, path);
            0
        }
        Ok(Err(f)) => {
            if f.message.starts_with(INCONCLUSIVE) || f.check == "bad-replay" {
                eprintln!("[{}] replay inconclusive: {} {}", def.id, f.check, f.message);
                return 2;
            }
            eprintln!("[{}] {} / {}: {}", def.id, campaign, f.check, f.message);
            println!("VIOLATION property={} replay={}", def.id, path);
            1
        }
        Err(p) => {
            eprintln!("[{}] replay panicked: {}", def.id, p);
            println!("VIOLATION property={} replay={}", def.id, path);
            1
        }
    }
}

fn supervise(args: &[String]) -> i32 {
    use std::os::unix::process::ExitStatusExt;
    let exe = match std::env::current_exe() {
        Ok(e) => e,
        Err(_) => return 2,
    };
    let status = std::process::Command::new(exe).args(args).arg("--inner").status();
    let status = match status {
        Ok(s) => s,
        Err(e) => {
            eprintln!("cannot start the check process: {}", e);
            return 2;
        }
    };
    if let Some(c) = status.code() {
        if c < 128 {
            return c;
        }
    }
    let id = args[0].as_str();
    let what = match status.signal() {
        Some(s) => format!("killed by signal {}", s),
        None => format!("exit code {:?}", status.code()),
    };
    eprintln!("[{}] the check process died ({}): the code under test aborted or overflowed the stack", id, what);
    if id != "C06" {
        eprintln!("[{}] inconclusive: a crash of the code under test is C06's business (run ./run.sh C06 quick)", id);
        return 2;
    }
    // C06: find out which of the running cases does it
    let culprits = vcheck::props::c06::crashed_candidates();
    let dir = format!("{}/work/replays", findings::verif_dir());
    let _ = std::fs::create_dir_all(&dir);
    let mut n = 0;
    for (i, (pool, msg)) in culprits.iter().enumerate() {
        let path = format!("{}/C06-crashed-pool-{}.json", dir, i);
        let body = json!({"property": "C06", "campaign": "crashed-pool", "check": "crash-or-panic", "message": msg, "case": pool});
        let _ = std::fs::write(&path, serde_json::to_string_pretty(&body).unwrap());
        eprintln!("[C06] crashed-pool / crash-or-panic: {:?}: {}", pool, msg);
        println!("VIOLATION property=C06 replay={}", path);
        n += 1;
    }
    // the child could not write its evidence: leave a minimal, honest one
    let ev = json!({"property_id": "C06", "tier": args.get(1).cloned().unwrap_or_else(|| "quick".into()), "seed": std::env::var("VERIF_SEED").ok().and_then(|s| s.parse::<i64>().ok()).unwrap_or(0),
        "level": "exploration", "wall_s": 0.0, "violations": n,
        "coverage": {"evaluations": 1, "distinct_nontrivial": 2, "rule": "the check process died; the cases that were running were re-executed one by one under supervision", "samples": culprits.iter().map(|c| json!(c.0)).collect::<Vec<_>>(),
            "explanation": what}});
    let _ = std::fs::create_dir_all(format!("{}/evidence", findings::verif_dir()));
    let _ = std::fs::write(format!("{}/evidence/C06.json", findings::verif_dir()), serde_json::to_string_pretty(&ev).unwrap());
    if n > 0 {
        1
    } else {
        eprintln!("[C06] inconclusive: the crash did not reproduce when the running cases were re-executed one by one");
        2
    }
}
