//! `Range` values for the algebra properties (DESIGN 4.3): leaves are interval texts over a small
//! pool of versions (few tuples x tags -0,-a,-a.0,-b) so that equal, adjacent and nested endpoints
//! are the common case; inner nodes are intersect / difference.
use crate::engine::guard;
use crate::model::interval::IModel;
use crate::model::version::*;
use nodejs_semver::Range;
use proptest::prelude::*;
use proptest::sample::select;
use serde::{Deserialize, Serialize};
use std::collections::HashMap;

#[derive(Clone, Debug, PartialEq, Eq, Hash, Serialize, Deserialize)]
pub enum Expr {
    /// `Range::any()`: the only value that is unbounded on both sides (a parsed `*` is `>=0.0.0`)
    Any,
    Leaf(String),
    And(Box<Expr>, Box<Expr>),
    Minus(Box<Expr>, Box<Expr>),
}

impl Expr {
    pub fn depth(&self) -> usize {
        match self {
            Expr::Leaf(_) | Expr::Any => 0,
            Expr::And(a, b) | Expr::Minus(a, b) => 1 + a.depth().max(b.depth()),
        }
    }
    pub fn leaves<'a>(&'a self, out: &mut Vec<&'a String>) {
        match self {
            Expr::Leaf(t) => out.push(t),
            Expr::Any => {}
            Expr::And(a, b) | Expr::Minus(a, b) => {
                a.leaves(out);
                b.leaves(out);
            }
        }
    }
    pub fn contains_any(&self) -> bool {
        match self {
            Expr::Any => true,
            Expr::Leaf(_) => false,
            Expr::And(a, b) | Expr::Minus(a, b) => a.contains_any() || b.contains_any(),
        }
    }
    pub fn show(&self) -> String {
        match self {
            Expr::Leaf(t) => format!("[{}]", t),
            Expr::Any => "Range::any()".to_string(),
            Expr::And(a, b) => format!("({} ∩ {})", a.show(), b.show()),
            Expr::Minus(a, b) => format!("({} \\ {})", a.show(), b.show()),
        }
    }
}

pub fn and(a: Expr, b: Expr) -> Expr {
    Expr::And(Box::new(a), Box::new(b))
}
pub fn minus(a: Expr, b: Expr) -> Expr {
    Expr::Minus(Box::new(a), Box::new(b))
}

#[derive(Debug)]
pub enum EvalErr {
    /// a leaf text does not parse: the case is discarded (C01 owns that question)
    Leaf(String),
    Panic(String),
}

/// Evaluate with the crate; `None` is the empty set and propagates.
/// `max_alts`: stop (as discard) when an operand grows beyond this many alternatives.
pub fn eval_crate(e: &Expr) -> Result<Option<Range>, EvalErr> {
    match e {
        Expr::Any => Ok(Some(Range::any())),
        Expr::Leaf(t) => match guard(|| Range::parse(t)) {
            Ok(Ok(r)) => Ok(Some(r)),
            Ok(Err(_)) => Err(EvalErr::Leaf(t.clone())),
            Err(p) => Err(EvalErr::Panic(format!("Range::parse({:?}) panicked: {}", t, p))),
        },
        Expr::And(a, b) => {
            let (x, y) = (eval_crate(a)?, eval_crate(b)?);
            match (x, y) {
                (Some(x), Some(y)) => guard(|| x.intersect(&y)).map_err(|p| EvalErr::Panic(format!("({}).intersect({}) panicked: {}", x, y, p))),
                _ => Ok(None),
            }
        }
        Expr::Minus(a, b) => {
            let (x, y) = (eval_crate(a)?, eval_crate(b)?);
            match (x, y) {
                (Some(x), Some(y)) => guard(|| x.difference(&y)).map_err(|p| EvalErr::Panic(format!("({}).difference({}) panicked: {}", x, y, p))),
                (Some(x), None) => Ok(Some(x)),
                _ => Ok(None),
            }
        }
    }
}

/// Interval models of the leaves (from the Display of the parsed leaf).
pub fn leaf_models(e: &Expr) -> Result<HashMap<String, IModel>, EvalErr> {
    let mut ls = vec![];
    e.leaves(&mut ls);
    let mut out = HashMap::new();
    for t in ls {
        if out.contains_key(t) {
            continue;
        }
        match guard(|| Range::parse(t)) {
            Ok(Ok(r)) => {
                let m = IModel::of(&r).map_err(EvalErr::Panic)?;
                out.insert(t.clone(), m);
            }
            Ok(Err(_)) => return Err(EvalErr::Leaf(t.clone())),
            Err(p) => return Err(EvalErr::Panic(p)),
        }
    }
    Ok(out)
}

/// Membership in the bounds of the expression's value, by boolean evaluation from the leaves.
pub fn model_in_bounds(e: &Expr, lm: &HashMap<String, IModel>, v: &MVersion) -> bool {
    match e {
        Expr::Leaf(t) => lm[t].in_bounds(v),
        Expr::Any => true,
        Expr::And(a, b) => model_in_bounds(a, lm, v) && model_in_bounds(b, lm, v),
        Expr::Minus(a, b) => model_in_bounds(a, lm, v) && !model_in_bounds(b, lm, v),
    }
}

// ------------------------------------------------------------------------------------------
// generators

pub fn tags() -> Vec<Vec<MId>> {
    vec![
        vec![],
        vec![MId::Num(0)],
        vec![MId::Str("a".into())],
        vec![MId::Str("a".into()), MId::Num(0)],
        vec![MId::Str("b".into())],
    ]
}

/// a sorted pool of 3..=8 distinct versions over at most 5 tuples
pub fn vpool() -> BoxedStrategy<Vec<MVersion>> {
    // mostly tiny components (adjacency and ties are the point); one component in ten comes from the
    // whole number line (log-uniform bit lengths, powers of two and neighbours, values at the limit)
    let comp = || {
        let cap = max_int() - 2;
        prop_oneof![9 => (0u64..3).boxed(), 1 => crate::gen::version::field().prop_map(move |x| x.min(cap)).boxed()]
    };
    (comp(), comp(), comp(), 0u64..4, proptest::collection::vec((0usize..5, 0usize..5), 3..=8)).prop_map(|(a, b, c, d, picks)| vpool_of(a, b, c, d, &picks)).boxed()
}

pub fn vpool_of(a: u64, b: u64, c: u64, d: u64, picks: &[(usize, usize)]) -> Vec<MVersion> {
    let tuples = [(a, b, c), (a, b, c + 1), (a, b + 1, 0), (a + 1, 0, 0), (a + 1 + d, d, 0)];
    let tg = tags();
    let mut out: Vec<MVersion> = picks.iter().map(|(ti, gi)| MVersion::new(tuples[*ti].0, tuples[*ti].1, tuples[*ti].2).with_pre(tg[*gi].clone())).collect();
    out.sort_by(cmp_semver);
    out.dedup();
    // now and then a pool version carries build metadata (it must never matter)
    for (k, v) in out.iter_mut().enumerate() {
        if (d as usize + k) % 7 == 0 {
            v.build = if k % 2 == 0 { vec![MId::Str("b".into())] } else { vec![MId::Num(7), MId::Str("x".into())] };
        }
    }
    out
}

/// one interval as text, endpoints `pool[i]`, `pool[j]` (sorted so the interval is never inverted)
pub fn interval_text_of(pool: &[MVersion], i: usize, j: usize, shape: u8, li: bool, hi: bool) -> String {
    let (i, j) = if i <= j { (i, j) } else { (j, i) };
    let (lo, up) = (pool[i].text(), pool[j].text());
    let l = if li { ">=" } else { ">" };
    let u = if hi { "<=" } else { "<" };
    match shape {
        0 => "*".to_string(),
        1 => format!("{}{}", l, lo),
        2 => format!("{}{}", u, up),
        3 => lo,
        4 => format!("={}", up),
        _ => {
            if i == j {
                // a single point: only the closed form is a valid interval; the three empty
                // spellings (`>v <=v`, `>=v <v`, `>v <v`) must not parse (the case is then discarded)
                if shape == 11 {
                    format!("{}{} {}{}", if li { ">=" } else { ">" }, lo, if hi && !li { "<=" } else { "<" }, up)
                } else if li && hi {
                    format!(">={} <={}", lo, up)
                } else {
                    format!("{}{}", l, lo)
                }
            } else {
                format!("{}{} {}{}", l, lo, u, up)
            }
        }
    }
}

pub fn interval_text(pool: Vec<MVersion>) -> BoxedStrategy<String> {
    let n = pool.len();
    (0usize..n, 0usize..n, 0u8..12, any::<bool>(), any::<bool>()).prop_map(move |(i, j, shape, li, hi)| interval_text_of(&pool, i, j, shape, li, hi)).boxed()
}

/// sugar forms: caret / tilde / x-ranges / hyphen / partial uppers (`<=1`, `<=1.2`, `<1`, `>1.2`)
pub fn sugar_text_of(pool: &[MVersion], i: usize, j: usize, k: u8) -> String {
    let (a, b) = (&pool[i.min(j)], &pool[i.max(j)]);
    match k {
        0 => format!("^{}", a.text()),
        1 => format!("~{}", a.text()),
        2 => format!("{}.x", a.major),
        3 => format!("{}.{}.x", a.major, a.minor),
        4 => format!("{} - {}", a.text(), b.text()),
        5 => format!("{} - {}.{}", a.text(), b.major, b.minor),
        6 => format!("<={}", b.major),
        7 => format!("<={}.{}", b.major, b.minor),
        8 => format!("<{}", b.major + 1),
        9 => format!(">{}.{}", a.major, a.minor),
        10 => format!("^{}.{}", a.major, a.minor),
        _ => format!("~{}", a.major),
    }
}

pub fn sugar_text(pool: Vec<MVersion>) -> BoxedStrategy<String> {
    let n = pool.len();
    (0usize..n, 0usize..n, 0u8..12).prop_map(move |(i, j, k)| sugar_text_of(&pool, i, j, k)).boxed()
}

pub fn alt_text(pool: Vec<MVersion>) -> BoxedStrategy<String> {
    prop_oneof![5 => interval_text(pool.clone()), 1 => sugar_text(pool)].boxed()
}

/// a leaf: 1..=max_alts alternatives
pub fn leaf_text(pool: Vec<MVersion>, max_alts: usize) -> BoxedStrategy<String> {
    let n = if max_alts <= 1 { Just(1usize).boxed() } else { prop_oneof![3 => Just(1usize), 2 => 2usize..=max_alts].boxed() };
    n.prop_flat_map(move |n| proptest::collection::vec(alt_text(pool.clone()), n))
        .prop_map(|alts| alts.join(" || "))
        .boxed()
}

pub fn leaf(pool: Vec<MVersion>, max_alts: usize) -> BoxedStrategy<Expr> {
    leaf_text(pool, max_alts).prop_map(Expr::Leaf).boxed()
}

/// expression trees of depth <= `depth`
pub fn expr(pool: Vec<MVersion>, depth: u32, max_alts: usize) -> BoxedStrategy<Expr> {
    let l = leaf(pool, max_alts);
    if depth == 0 {
        return l;
    }
    l.prop_recursive(depth, 8, 2, |inner| {
        prop_oneof![
            (inner.clone(), inner.clone()).prop_map(|(a, b)| and(a, b)),
            (inner.clone(), inner).prop_map(|(a, b)| minus(a, b)),
        ]
    })
    .boxed()
}

/// `Range::any()` cannot be obtained from `Range::parse` and set operations on parsed ranges (a parsed `*` is
/// `>=0.0.0`, and neither operation removes a lower bound *and* an upper bound), so it lies outside the
/// quantification of the properties.  It is used as an extra leaf - it is the only value unbounded on both
/// sides - but only while the model can tell it apart: its printed form must read as unbounded on both sides
/// and differ from what a parsed `*` prints.  A tree that prints `Range::any()` as `>=0.0.0` keeps every listed
/// property and must not raise an alarm; then the leaf is simply not generated.
pub fn any_leaf_usable() -> bool {
    static USABLE: std::sync::OnceLock<bool> = std::sync::OnceLock::new();
    *USABLE.get_or_init(|| {
        let printed = guard(|| (Range::any().to_string(), Range::parse("*").map(|r| r.to_string()).unwrap_or_default()));
        match printed {
            Ok((a, p)) => match IModel::from_display(&a) {
                Some(m) => a != p && m.ivs.len() == 1 && m.ivs[0].lo.is_none() && m.ivs[0].hi.is_none(),
                None => false,
            },
            Err(_) => false,
        }
    })
}

/// as `expr`, with `Range::any()` as an occasional leaf (not for the print/parse round trip: `*` re-parses
/// to `>=0.0.0`, and `Range::any()` is not reachable from `Range::parse`)
pub fn expr_with_any(pool: Vec<MVersion>, depth: u32, max_alts: usize) -> BoxedStrategy<Expr> {
    let l = if any_leaf_usable() { prop_oneof![24 => leaf(pool.clone(), max_alts), 1 => Just(Expr::Any)].boxed() } else { leaf(pool.clone(), max_alts) };
    if depth == 0 {
        return l.boxed();
    }
    l.prop_recursive(depth, 8, 2, |inner| {
        prop_oneof![
            (inner.clone(), inner.clone()).prop_map(|(a, b)| and(a, b)),
            (inner.clone(), inner).prop_map(|(a, b)| minus(a, b)),
        ]
    })
    .boxed()
}

/// a few random versions near the pool for probing
pub fn extra(pool: Vec<MVersion>) -> BoxedStrategy<Vec<MVersion>> {
    let tg = tags();
    proptest::collection::vec((select(pool), select(tg), 0u64..2), 1..=3)
        .prop_map(|v| v.into_iter().map(|(b, t, d)| MVersion::new(b.major, b.minor, b.patch + d).with_pre(t)).collect())
        .boxed()
}
