pub mod version;
pub mod range_ast;
pub mod strings;
