pub mod version;
pub mod strings;
