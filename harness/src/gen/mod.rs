pub mod version;
pub mod range_ast;
pub mod ranges;
pub mod strings;
