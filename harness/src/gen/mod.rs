pub mod version;
