//! String domains for the robustness / acceptance properties (DESIGN 4.4).
use crate::model::version::{max_int, max_len};
use proptest::prelude::*;
use proptest::sample::select;

/// Characters used for single edits.  Besides ASCII token classes it contains multi-byte characters
/// whose *low byte* is an ASCII alphanumeric / '-' / '.' / '+' (U+0161 -> 'a', U+0131 -> '1',
/// U+012D -> '-', U+012E -> '.', U+012B -> '+'): a parser that narrows `char` to `u8` mistakes them.
pub fn edit_alphabet() -> Vec<char> {
    let mut v: Vec<char> = "0123456789.-+xX*<>=~^| \t\n\rvVabzAZ_,/:é💥\0".chars().collect();
    v.extend(['\u{161}', '\u{131}', '\u{12d}', '\u{12e}', '\u{12b}', '\u{130}', '\u{a0}', '\u{2003}']);
    v
}

/// The i-th string (in length-then-lexicographic order) over `alpha`, for exhaustive enumeration.
/// Total number of strings with length <= L is sum_{k<=L} n^k.
pub fn count_upto(n: u64, len: u32) -> u64 {
    (0..=len).map(|k| n.pow(k)).sum()
}

pub fn nth_string(alpha: &[char], mut idx: u64, buf: &mut String) {
    buf.clear();
    let n = alpha.len() as u64;
    let mut len = 0u32;
    loop {
        let c = n.pow(len);
        if idx < c {
            break;
        }
        idx -= c;
        len += 1;
    }
    let mut digits = vec![0usize; len as usize];
    for d in digits.iter_mut().rev() {
        *d = (idx % n) as usize;
        idx /= n;
    }
    for d in digits {
        buf.push(alpha[d]);
    }
}

/// All single edits (delete / insert / replace / append) of `base` with characters from `alpha`.
pub fn single_edits(base: &str, alpha: &[char]) -> Vec<String> {
    let chars: Vec<char> = base.chars().collect();
    let mut out = vec![];
    for i in 0..chars.len() {
        let mut s: String = chars[..i].iter().collect();
        s.extend(chars[i + 1..].iter());
        out.push(s);
    }
    for i in 0..=chars.len() {
        for &c in alpha {
            let mut s: String = chars[..i].iter().collect();
            s.push(c);
            s.extend(chars[i..].iter());
            out.push(s);
        }
    }
    for i in 0..chars.len() {
        for &c in alpha {
            if c == chars[i] {
                continue;
            }
            let mut s: String = chars[..i].iter().collect();
            s.push(c);
            s.extend(chars[i + 1..].iter());
            out.push(s);
        }
    }
    out
}

/// dictionary for token soup
pub fn soup_tokens() -> Vec<String> {
    let m = max_int();
    let mut v: Vec<String> = [
        "0", "1", "2", "3", "9", "10", "00", "01", ".", ".", "-", "-", "+", "x", "X", "*", "<", "<=", ">", ">=", "=", "~", "~>", "^", "||", "|",
        " ", " ", "  ", "\t", "\n", "\r", "v", "V", "a", "b", "alpha", "beta", "rc", "é", "💥", "\0", " - ", "1.2.3", "1.2", "0.0.0", "1.x",
        "-0", "+b", "\u{161}", "\u{131}", "\u{12d}", "foo", "1.y", "latest",
    ]
    .iter()
    .map(|s| s.to_string())
    .collect();
    for t in ["12", "42", "255", "256", "65536", "1048576", "2097151", "2097152", "20240101", "2147483648", "4294967296", "9007199254740992"] {
        v.push(t.to_string());
    }
    v.push(m.to_string());
    v.push((m + 1).to_string());
    v.push((m - 1).to_string());
    v.push(u64::MAX.to_string());
    v.push("18446744073709551616".to_string());
    v.push("123456789012345678901234567890".to_string());
    v
}

pub fn soup(max_tokens: usize) -> BoxedStrategy<String> {
    proptest::collection::vec(select(soup_tokens()), 0..=max_tokens).prop_map(|v| v.concat()).boxed()
}

/// numeric component texts around the limits
pub fn limit_numbers() -> Vec<String> {
    let m = max_int();
    vec![
        "0".into(),
        "1".into(),
        (m - 1).to_string(),
        m.to_string(),
        (m + 1).to_string(),
        format!("0{}", m),
        format!("000{}", m + 1),
        (m * 10).to_string(),
        u64::MAX.to_string(),
        format!("00{}", u64::MAX),
        "18446744073709551616".into(),
        "99999999999999999999".into(),
        "123456789012345678901234567890".into(),
    ]
}

/// pad `s` (a version text) to exactly `target` bytes by appending build identifier characters
pub fn pad_to(s: &str, target: usize, has_build: bool, last: &str) -> Option<String> {
    let need = target.checked_sub(s.len())?;
    if need == 0 {
        return Some(s.to_string());
    }
    let mut out = s.to_string();
    let mut need = need;
    if !has_build {
        if need < 2 {
            return None;
        }
        out.push('+');
        need -= 1;
    }
    if need < last.len() {
        return None;
    }
    out.push_str(&"p".repeat(need - last.len()));
    out.push_str(last);
    Some(out)
}

pub fn lengths_near_limit() -> Vec<usize> {
    let l = max_len();
    vec![l - 2, l - 1, l, l + 1, l + 2, l + 3, l + 4, 2 * l, 1000]
}

/// very long inputs, named by (shape, total length in bytes) so that a replay file stays small.
/// Lengths sit on both sides of the powers of two a buffer, a cap or a narrower integer would use.
pub const HUGE_SHAPES: usize = 9;
pub fn huge_lengths() -> Vec<usize> {
    let mut v = vec![];
    for k in [9u32, 10, 12, 15, 16, 17, 20] {
        let p = 1usize << k;
        v.extend([p - 1, p, p + 1, p + 3]);
    }
    v.extend([1000, 10_000, 100_000, 200_000, 1_000_003, 3_000_000]);
    v
}
pub fn huge_input(shape: usize, n: usize) -> String {
    let fill = |head: &str, unit: &str, tail: &str| {
        let mut s = String::with_capacity(n + 8);
        s.push_str(head);
        while s.len() + unit.len() + tail.len() <= n {
            s.push_str(unit);
        }
        // single bytes up to the exact length
        while s.len() + tail.len() < n {
            s.push('z');
        }
        s.push_str(tail);
        s
    };
    match shape {
        0 => fill("1.2.3-", "a", ""),
        1 => fill("1.2.3+", "b", ""),
        2 => fill("", "9", ".1.2"),
        3 => fill("1.2.3-", "é", ""),
        4 => fill("1.2.3\n", "a", "\nbbbbbbb"),
        5 => fill("", "1.2.3-a\n", "x"),
        6 => fill("foo ", "bar ", "baz"),
        7 => fill(" ", " ", ""),
        _ => fill("1.2.3-", "💥\r\n", "é"),
    }
}

