//! Version generators (DESIGN 4.1): boundary-biased fields, identifier pools, related versions, spellings.
use crate::model::version::{max_int, MId, MVersion};
use proptest::prelude::*;
use proptest::sample::select;
use serde::{Deserialize, Serialize};

/// log-uniform: every bit length 0..=50 equally likely, uniform within the bit length, capped at MAX
pub fn log_uniform() -> BoxedStrategy<u64> {
    let m = max_int();
    (0u32..=50, any::<u64>())
        .prop_map(move |(bits, r)| {
            if bits == 0 {
                0
            } else {
                let lo = 1u64 << (bits - 1);
                (lo + r % lo).min(m)
            }
        })
        .boxed()
}

/// powers of two and their neighbours
pub fn bit_boundary() -> BoxedStrategy<u64> {
    let m = max_int();
    (1u32..=50, 0u64..3).prop_map(move |(k, d)| ((1u64 << k) - 1 + d).min(m)).boxed()
}

/// decimal-structured values: d*10^k, 10^k +- 1, m*10^k (what a hand-written decimal formatter or
/// digit-chunking parser is sensitive to), capped at MAX
pub fn decimal_structured() -> BoxedStrategy<u64> {
    let m = max_int();
    prop_oneof![
        (1u64..=9, 0u32..=14, 0u64..3).prop_map(move |(d, k, delta)| (d * 10u64.pow(k)).saturating_add(delta).saturating_sub(1).min(m)),
        (1u64..1000, 0u32..=12).prop_map(move |(mm, k)| mm.saturating_mul(10u64.pow(k)).min(m)),
    ]
    .boxed()
}

pub fn decimal_values() -> Vec<u64> {
    let m = max_int();
    let mut v = vec![];
    for k in 0u32..=14 {
        for d in 1u64..=9 {
            let x = d * 10u64.pow(k);
            for y in [x.saturating_sub(1), x, x + 1] {
                if y <= m {
                    v.push(y);
                }
            }
        }
    }
    for mm in [12u64, 25, 99, 101, 123, 250, 999] {
        for k in [3u32, 6, 9, 12] {
            let x = mm.saturating_mul(10u64.pow(k));
            if x <= m {
                v.push(x);
            }
        }
    }
    v.sort();
    v.dedup();
    v
}

pub fn field() -> BoxedStrategy<u64> {
    let m = max_int();
    prop_oneof![
        6 => select(vec![0u64, 1, 2, 3, 9, 10, 11, 99]),
        1 => select(vec![m - 1, m]),
        1 => 0..=m,
        1 => 0..1000u64,
        2 => log_uniform(),
        1 => bit_boundary(),
        1 => decimal_structured(),
    ]
    .boxed()
}

/// small fields: collisions are the common case
pub fn small_field() -> BoxedStrategy<u64> {
    prop_oneof![8 => 0..4u64, 1 => select(vec![9u64, 10, 11]), 1 => field()].boxed()
}

pub fn str_ident_text() -> BoxedStrategy<String> {
    prop_oneof![
        6 => select(vec!["a", "A", "b", "alpha", "beta", "rc", "a0", "0a", "a-", "-", "-1", "--", "x", "X", "Z", "z", "a1", "a10", "a2", "00a", "1-"])
            .prop_map(|s| s.to_string()),
        2 => "[0-9A-Za-z-]{1,8}".prop_map(|s| if s.bytes().all(|b| b.is_ascii_digit()) { format!("r{}", s) } else { s }),
        1 => "[0-9A-Za-z-]{9,24}".prop_map(|s| if s.bytes().all(|b| b.is_ascii_digit()) { format!("r{}", s) } else { s }),
        1 => "[0-9-]{2,12}".prop_map(|s| if s.bytes().all(|b| b.is_ascii_digit()) { format!("{}-", s) } else { s }),
    ]
    .boxed()
}

pub fn ident() -> BoxedStrategy<MId> {
    prop_oneof![
        4 => select(vec![0u64, 1, 2, 9, 10, 11, 1u64 << 53, u64::MAX - 1, u64::MAX]).prop_map(MId::Num),
        1 => any::<u64>().prop_map(MId::Num),
        5 => str_ident_text().prop_map(MId::Str),
    ]
    .boxed()
}

pub fn ident_list() -> BoxedStrategy<Vec<MId>> {
    prop_oneof![
        4 => Just(vec![]),
        4 => proptest::collection::vec(ident(), 1..=2),
        2 => proptest::collection::vec(ident(), 3..=6),
    ]
    .boxed()
}

pub fn nonempty_ident_list() -> BoxedStrategy<Vec<MId>> {
    prop_oneof![
        4 => proptest::collection::vec(ident(), 1..=2),
        1 => proptest::collection::vec(ident(), 3..=6),
    ]
    .boxed()
}

pub fn mversion() -> BoxedStrategy<MVersion> {
    (field(), field(), field(), ident_list(), ident_list())
        .prop_map(|(major, minor, patch, pre, build)| MVersion { major, minor, patch, pre, build })
        .boxed()
}

pub fn small_mversion() -> BoxedStrategy<MVersion> {
    (small_field(), small_field(), small_field(), ident_list(), ident_list())
        .prop_map(|(major, minor, patch, pre, build)| MVersion { major, minor, patch, pre, build })
        .boxed()
}

#[derive(Clone, Debug, Serialize, Deserialize)]
pub enum Mutation {
    /// same characters, dots elsewhere: re-split the concatenated prerelease text (`rc1.0` -> `rc.10`)
    Resplit(u8),
    /// the semver release bumps: next major / minor / patch release
    NextMajor,
    NextMinor,
    NextPatch,
    BumpMajor,
    BumpMinor,
    BumpPatch,
    DecPatch,
    SetPatch(u64),
    PushId(MId),
    PopId,
    SetId(u8, MId),
    SwapKind(u8),
    FlipCase(u8),
    SetBuild(Vec<MId>),
    ClearPre,
    SetPre(Vec<MId>),
}

pub fn mutation() -> BoxedStrategy<Mutation> {
    prop_oneof![
        2 => (0u8..16).prop_map(Mutation::Resplit),
        1 => Just(Mutation::NextMajor),
        1 => Just(Mutation::NextMinor),
        1 => Just(Mutation::NextPatch),
        1 => Just(Mutation::BumpMajor),
        1 => Just(Mutation::BumpMinor),
        2 => Just(Mutation::BumpPatch),
        1 => Just(Mutation::DecPatch),
        1 => small_field().prop_map(Mutation::SetPatch),
        3 => ident().prop_map(Mutation::PushId),
        2 => Just(Mutation::PopId),
        3 => (0u8..6, ident()).prop_map(|(i, id)| Mutation::SetId(i, id)),
        2 => (0u8..6).prop_map(Mutation::SwapKind),
        2 => (0u8..6).prop_map(Mutation::FlipCase),
        3 => ident_list().prop_map(Mutation::SetBuild),
        1 => Just(Mutation::ClearPre),
        1 => nonempty_ident_list().prop_map(Mutation::SetPre),
    ]
    .boxed()
}

pub fn apply(v: &MVersion, m: &Mutation) -> MVersion {
    let mut v = v.clone();
    let mx = max_int();
    match m {
        Mutation::Resplit(k) => {
            if v.pre.len() >= 2 {
                // move one dot by one character, keeping the number of identifiers
                let texts: Vec<String> = v.pre.iter().map(|i| i.text()).collect();
                let i = (*k as usize) % (texts.len() - 1);
                let (a, b) = (texts[i].clone(), texts[i + 1].clone());
                let (na, nb) = if k % 2 == 0 && a.len() > 1 {
                    (a[..a.len() - 1].to_string(), format!("{}{}", &a[a.len() - 1..], b))
                } else if b.len() > 1 {
                    (format!("{}{}", a, &b[..1]), b[1..].to_string())
                } else {
                    (a, b)
                };
                let canon = |t: &str| {
                    // keep identifiers canonical (no leading zeros on numerics)
                    if t.len() > 1 && t.starts_with('0') && t.bytes().all(|c| c.is_ascii_digit()) {
                        None
                    } else {
                        Some(MId::from_text(t))
                    }
                };
                if let (Some(x), Some(y)) = (canon(&na), canon(&nb)) {
                    v.pre[i] = x;
                    v.pre[i + 1] = y;
                }
            }
        }
        Mutation::NextMajor => {
            v.major = (v.major + 1).min(mx);
            v.minor = 0;
            v.patch = 0;
            v.pre.clear();
        }
        Mutation::NextMinor => {
            v.minor = (v.minor + 1).min(mx);
            v.patch = 0;
            v.pre.clear();
        }
        Mutation::NextPatch => {
            v.patch = (v.patch + 1).min(mx);
            v.pre.clear();
        }
        Mutation::BumpMajor => v.major = (v.major + 1).min(mx),
        Mutation::BumpMinor => v.minor = (v.minor + 1).min(mx),
        Mutation::BumpPatch => v.patch = (v.patch + 1).min(mx),
        Mutation::DecPatch => v.patch = v.patch.saturating_sub(1),
        Mutation::SetPatch(p) => v.patch = *p,
        Mutation::PushId(id) => v.pre.push(id.clone()),
        Mutation::PopId => {
            v.pre.pop();
        }
        Mutation::SetId(i, id) => {
            if !v.pre.is_empty() {
                let k = (*i as usize) % v.pre.len();
                v.pre[k] = id.clone();
            }
        }
        Mutation::SwapKind(i) => {
            if !v.pre.is_empty() {
                let k = (*i as usize) % v.pre.len();
                v.pre[k] = match &v.pre[k] {
                    MId::Num(n) => MId::Str(format!("{}a", n)),
                    MId::Str(s) => {
                        let digits: String = s.chars().filter(|c| c.is_ascii_digit()).collect();
                        match digits.parse::<u64>() {
                            Ok(n) => MId::Num(n),
                            Err(_) => MId::Num(s.len() as u64),
                        }
                    }
                };
            }
        }
        Mutation::FlipCase(i) => {
            if !v.pre.is_empty() {
                let k = (*i as usize) % v.pre.len();
                if let MId::Str(s) = &v.pre[k] {
                    let t: String = s
                        .chars()
                        .map(|c| if c.is_ascii_lowercase() { c.to_ascii_uppercase() } else { c.to_ascii_lowercase() })
                        .collect();
                    if !t.bytes().all(|b| b.is_ascii_digit()) {
                        v.pre[k] = MId::Str(t);
                    }
                }
            }
        }
        Mutation::SetBuild(b) => v.build = b.clone(),
        Mutation::ClearPre => v.pre.clear(),
        Mutation::SetPre(p) => v.pre = p.clone(),
    }
    v
}

/// A base version and up to `n-1` versions derived from it by 0..=3 mutations each.
pub fn related(n: usize) -> BoxedStrategy<Vec<MVersion>> {
    (
        prop_oneof![3 => small_mversion(), 1 => mversion()],
        proptest::collection::vec(proptest::collection::vec(mutation(), 0..=3), n - 1),
    )
        .prop_map(|(base, muts)| {
            let mut out = vec![base.clone()];
            for ms in muts {
                // chain: mutate the previous one half of the time, the base otherwise
                let mut v = if ms.len() % 2 == 0 { out.last().unwrap().clone() } else { base.clone() };
                for m in &ms {
                    v = apply(&v, m);
                }
                out.push(v);
            }
            out
        })
        .boxed()
}

/// How a version is spelled as text.
#[derive(Clone, Debug, Serialize, Deserialize, PartialEq, Eq, Hash)]
pub struct Spelling {
    pub lead_blanks: String,
    pub v: Option<char>,
    pub v_blanks: String,
    pub zeros: [u8; 3],
    pub hyphenless: bool,
    pub trail_blanks: String,
}

impl Spelling {
    pub fn canonical() -> Spelling {
        Spelling { lead_blanks: String::new(), v: None, v_blanks: String::new(), zeros: [0; 3], hyphenless: false, trail_blanks: String::new() }
    }
    pub fn is_canonical(&self) -> bool {
        *self == Spelling::canonical()
    }
    pub fn is_strict_shape(&self) -> bool {
        self.lead_blanks.is_empty() && self.v.is_none() && self.v_blanks.is_empty() && !self.hyphenless && self.trail_blanks.is_empty()
    }
}

pub fn spelling() -> BoxedStrategy<Spelling> {
    prop_oneof![
        3 => Just(Spelling::canonical()),
        3 => (
            select(vec!["", "", "", " ", "  ", "\t"]),
            select(vec![None, None, Some('v'), Some('V')]),
            select(vec!["", "", " ", "\t "]),
            [select(vec![0u8, 0, 0, 1, 2]), select(vec![0u8, 0, 1]), select(vec![0u8, 0, 3])],
            any::<bool>(),
            select(vec!["", "", " ", " \t", "\t"]),
        )
            .prop_map(|(lb, v, vb, zeros, hyphenless, tb)| Spelling {
                lead_blanks: lb.to_string(),
                v,
                v_blanks: if v.is_some() { vb.to_string() } else { String::new() },
                zeros,
                hyphenless,
                trail_blanks: tb.to_string(),
            }),
    ]
    .boxed()
}

/// Render `v` with spelling `sp`.  Hyphenless only applies when the first prerelease identifier
/// starts with a letter (a digit would extend the patch number, '-' would be the hyphen).
pub fn spell(v: &MVersion, sp: &Spelling) -> String {
    let mut s = String::new();
    s.push_str(&sp.lead_blanks);
    if let Some(c) = sp.v {
        s.push(c);
        s.push_str(&sp.v_blanks);
    }
    let z = |n: u8| "0".repeat(n as usize);
    s.push_str(&format!("{}{}.{}{}.{}{}", z(sp.zeros[0]), v.major, z(sp.zeros[1]), v.minor, z(sp.zeros[2]), v.patch));
    for (i, id) in v.pre.iter().enumerate() {
        let t = id.text();
        if i == 0 {
            let can_drop = sp.hyphenless && t.as_bytes()[0].is_ascii_alphabetic();
            if !can_drop {
                s.push('-');
            }
        } else {
            s.push('.');
        }
        s.push_str(&t);
    }
    for (i, id) in v.build.iter().enumerate() {
        s.push(if i == 0 { '+' } else { '.' });
        s.push_str(&id.text());
    }
    s.push_str(&sp.trail_blanks);
    s
}

pub fn used_hyphenless(v: &MVersion, sp: &Spelling) -> bool {
    sp.hyphenless && v.pre.first().map(|id| id.text().as_bytes()[0].is_ascii_alphabetic()).unwrap_or(false)
}
