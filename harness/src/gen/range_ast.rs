//! Range AST (DESIGN 4.2): what proptest generates and shrinks; the text is a rendering of it.
use crate::model::version::max_int;
use proptest::prelude::*;
use proptest::sample::select;
use serde::{Deserialize, Serialize};

#[derive(Clone, Debug, PartialEq, Eq, Hash, Serialize, Deserialize)]
pub enum Comp {
    Num { val: u64, zeros: u8 },
    Wild(char),
}

impl Comp {
    pub fn num(&self) -> Option<u64> {
        match self {
            Comp::Num { val, .. } => Some(*val),
            Comp::Wild(_) => None,
        }
    }
    pub fn is_wild(&self) -> bool {
        matches!(self, Comp::Wild(_))
    }
}

#[derive(Clone, Debug, PartialEq, Eq, Hash, Serialize, Deserialize)]
pub struct Partial {
    pub v: bool,
    /// 1..=3 components
    pub comps: Vec<Comp>,
    /// qualifier; rendered only when there are three components
    pub pre: Vec<String>,
    pub build: Vec<String>,
    /// prerelease written without '-' (only honoured when the patch is numeric and the first
    /// identifier starts with a letter)
    pub hyphenless: bool,
}

impl Partial {
    pub fn has_qualifier(&self) -> bool {
        self.comps.len() == 3 && (!self.pre.is_empty() || !self.build.is_empty())
    }
    pub fn eff_pre(&self) -> &[String] {
        if self.comps.len() == 3 {
            &self.pre
        } else {
            &[]
        }
    }
    pub fn uses_hyphenless(&self) -> bool {
        self.hyphenless
            && self.comps.len() == 3
            && !self.comps[2].is_wild()
            && self.pre.first().map(|t| t.as_bytes()[0].is_ascii_alphabetic()).unwrap_or(false)
    }
    pub fn render(&self) -> String {
        let mut s = String::new();
        if self.v {
            s.push('v');
        }
        for (i, c) in self.comps.iter().enumerate() {
            if i > 0 {
                s.push('.');
            }
            match c {
                Comp::Num { val, zeros } => {
                    s.push_str(&"0".repeat(*zeros as usize));
                    s.push_str(&val.to_string());
                }
                Comp::Wild(ch) => s.push(*ch),
            }
        }
        if self.comps.len() == 3 {
            if !self.pre.is_empty() {
                if !self.uses_hyphenless() {
                    s.push('-');
                }
                s.push_str(&self.pre.join("."));
            }
            if !self.build.is_empty() {
                s.push('+');
                s.push_str(&self.build.join("."));
            }
        }
        s
    }
    /// wildcard in the major position, or a wildcard followed by a numeric component,
    /// or a qualifier on a partial that contains a wildcard
    pub fn wildcard_misplaced(&self) -> bool {
        let n = self.comps.len();
        for i in 0..n {
            if self.comps[i].is_wild() {
                if i == 0 {
                    return true;
                }
                if self.comps[i + 1..].iter().any(|c| !c.is_wild()) {
                    return true;
                }
                if self.has_qualifier() {
                    return true;
                }
            }
        }
        false
    }
    /// x, x.x, x.x.x (any wildcard characters) without qualifier
    pub fn all_wild_plain(&self) -> bool {
        self.comps.iter().all(|c| c.is_wild()) && !self.has_qualifier()
    }
    pub fn has_wild(&self) -> bool {
        self.comps.iter().any(|c| c.is_wild())
    }
    pub fn has_leading_zero(&self) -> bool {
        self.comps.iter().any(|c| matches!(c, Comp::Num { zeros, .. } if *zeros > 0))
    }
    pub fn max_component(&self) -> u64 {
        self.comps.iter().filter_map(|c| c.num()).max().unwrap_or(0)
    }
}

#[derive(Clone, Copy, Debug, PartialEq, Eq, Hash, Serialize, Deserialize)]
pub enum Op {
    Bare,
    Eq,
    Lt,
    Le,
    Gt,
    Ge,
    Tilde,
    TildeGt,
    Caret,
}

impl Op {
    pub fn text(&self) -> &'static str {
        match self {
            Op::Bare => "",
            Op::Eq => "=",
            Op::Lt => "<",
            Op::Le => "<=",
            Op::Gt => ">",
            Op::Ge => ">=",
            Op::Tilde => "~",
            Op::TildeGt => "~>",
            Op::Caret => "^",
        }
    }
    pub fn all() -> Vec<Op> {
        vec![Op::Bare, Op::Eq, Op::Lt, Op::Le, Op::Gt, Op::Ge, Op::Tilde, Op::TildeGt, Op::Caret]
    }
}

/// is the comparator `op partial` in the D8 class?
pub fn op_wildcard_misplaced(op: Op, p: &Partial) -> bool {
    if op == Op::Bare || !p.wildcard_misplaced() {
        return false;
    }
    !((op == Op::Ge || op == Op::Lt) && p.all_wild_plain())
}

#[derive(Clone, Debug, PartialEq, Eq, Hash, Serialize, Deserialize)]
pub enum Tok {
    Cmp { op: Op, blanks: u8, p: Partial },
    Garbage(String),
}

impl Tok {
    pub fn render(&self) -> String {
        match self {
            Tok::Cmp { op, blanks, p } => {
                // blanks after the operator: 0..2 spaces, 3 = one tab
                let ws = match (*op, *blanks) {
                    (Op::Bare, _) | (_, 0) => String::new(),
                    (_, 3) => "\t".to_string(),
                    (_, b) => " ".repeat(b as usize),
                };
                format!("{}{}{}", op.text(), ws, p.render())
            }
            Tok::Garbage(g) => g.clone(),
        }
    }
    pub fn is_garbage(&self) -> bool {
        matches!(self, Tok::Garbage(_))
    }
}

#[derive(Clone, Debug, PartialEq, Eq, Hash, Serialize, Deserialize)]
pub enum Alt {
    /// `lo - hi`; `lo == None` is the loose lower-less form ` - hi`
    Hyphen {
        lo: Option<Partial>,
        hi: Partial,
        /// extra blanks (beyond the mandatory one) before / after the '-'
        #[serde(default)]
        pad: (u8, u8),
    },
    /// 0..n tokens joined by blanks; `seps[i]` separates token i and i+1
    Simples { toks: Vec<Tok>, seps: Vec<String> },
}

impl Alt {
    pub fn render(&self) -> String {
        match self {
            Alt::Hyphen { lo, hi, pad } => format!(
                "{}{} -{} {}",
                lo.as_ref().map(|p| p.render()).unwrap_or_default(),
                " ".repeat(pad.0 as usize),
                " ".repeat(pad.1 as usize),
                hi.render()
            ),
            Alt::Simples { toks, seps } => {
                let mut s = String::new();
                for (i, t) in toks.iter().enumerate() {
                    if i > 0 {
                        s.push_str(seps.get(i - 1).map(|x| x.as_str()).unwrap_or(" "));
                    }
                    s.push_str(&t.render());
                }
                s
            }
        }
    }
    pub fn partials(&self) -> Vec<(&Partial, Option<Op>)> {
        match self {
            Alt::Hyphen { lo, hi, .. } => {
                let mut v = vec![];
                if let Some(l) = lo {
                    v.push((l, None));
                }
                v.push((hi, None));
                v
            }
            Alt::Simples { toks, .. } => toks
                .iter()
                .filter_map(|t| match t {
                    Tok::Cmp { op, p, .. } => Some((p, Some(*op))),
                    _ => None,
                })
                .collect(),
        }
    }
}

#[derive(Clone, Debug, PartialEq, Eq, Hash, Serialize, Deserialize)]
pub struct RangeAst {
    pub alts: Vec<Alt>,
    /// blanks (left, right) around each `||`
    pub ors: Vec<(u8, u8)>,
    /// blanks before / after the whole text (npm trims them)
    #[serde(default)]
    pub lead: String,
    #[serde(default)]
    pub trail: String,
}

impl RangeAst {
    pub fn render(&self) -> String {
        let mut s = self.lead.clone();
        for (i, a) in self.alts.iter().enumerate() {
            if i > 0 {
                let (l, r) = self.ors.get(i - 1).copied().unwrap_or((1, 1));
                s.push_str(&" ".repeat(l as usize));
                s.push_str("||");
                s.push_str(&" ".repeat(r as usize));
            }
            s.push_str(&a.render());
        }
        s.push_str(&self.trail);
        s
    }
    pub fn single(alt: Alt) -> RangeAst {
        RangeAst { alts: vec![alt], ors: vec![], lead: String::new(), trail: String::new() }
    }
    pub fn of(alts: Vec<Alt>, ors: Vec<(u8, u8)>) -> RangeAst {
        RangeAst { alts, ors, lead: String::new(), trail: String::new() }
    }

    // ---- construct classes that belong to listed findings (DESIGN 5.2) ----
    /// D8: wildcard misplaced under an operator / tilde / caret / hyphen operand.  The class is kept as
    /// tight as the defects: `>=x`, `<x` (any number of wildcard components, no qualifier) and an
    /// all-wildcard *lower* operand of a hyphen range (`x - 2`) are handled correctly and stay outside.
    pub fn has_wildcard_misplaced(&self) -> bool {
        self.alts.iter().any(|a| match a {
            Alt::Hyphen { lo, hi, .. } => {
                let lo_bad = lo.as_ref().map(|p| p.wildcard_misplaced() && !p.all_wild_plain()).unwrap_or(false);
                lo_bad || hi.wildcard_misplaced()
            }
            Alt::Simples { toks, .. } => toks.iter().any(|t| match t {
                Tok::Cmp { op, p, .. } => op_wildcard_misplaced(*op, p),
                _ => false,
            }),
        })
    }
    /// D9: lower-less hyphen
    pub fn has_lowerless_hyphen(&self) -> bool {
        self.alts.iter().any(|a| matches!(a, Alt::Hyphen { lo: None, .. }))
    }
    /// D10: an empty alternative next to others (the whole-text '' is allowed to fail)
    pub fn has_empty_alternative(&self) -> bool {
        self.alts.len() > 1 && self.alts.iter().any(|a| matches!(a, Alt::Simples { toks, .. } if toks.is_empty()))
    }
    /// structural validity of the AST itself (a minimised or hand-written case may violate it):
    /// every partial has 1..=3 components, identifiers are non-empty and over [0-9A-Za-z-]
    pub fn well_formed(&self) -> bool {
        let id_ok = |t: &String| !t.is_empty() && t.bytes().all(|b| b.is_ascii_alphanumeric() || b == b'-');
        !self.alts.is_empty()
            && self.all_partials().iter().all(|(p, _)| (1..=3).contains(&p.comps.len()) && p.pre.iter().all(id_ok) && p.build.iter().all(id_ok))
            && self.lead.chars().all(|c| c == ' ' || c == '\t')
            && self.trail.chars().all(|c| c == ' ' || c == '\t')
            && self.alts.iter().all(|a| match a {
                Alt::Simples { toks, seps } => {
                    seps.iter().all(|s| !s.is_empty() && s.chars().all(|c| c == ' ' || c == '\t'))
                        && seps.len() + 1 >= toks.len()
                        && toks.iter().all(|t| match t {
                            Tok::Garbage(g) => GARBAGE.contains(&g.as_str()),
                            _ => true,
                        })
                }
                _ => true,
            })
    }
    pub fn all_partials(&self) -> Vec<(&Partial, Option<Op>)> {
        self.alts.iter().flat_map(|a| a.partials()).collect()
    }
    pub fn has_garbage(&self) -> bool {
        self.alts.iter().any(|a| matches!(a, Alt::Simples { toks, .. } if toks.iter().any(|t| t.is_garbage())))
    }
}

// ------------------------------------------------------------------------------------------
// strategies

pub const GARBAGE: &[&str] = &["foo", "1.y", ">=1.y", "1.2.3.4", "~1.2.3.4", "1.2beta4", "!1", "latest", ".1", "1..2", "a.b.c", "^1.2.3.4", "x|y", "1|2", "- 1.2beta4", "- 1.y", "- foo", "- 2foo", "-2", "1-",
    // a component above MAX_SAFE_INTEGER makes the whole comparator unparseable (it is dropped like any other junk,
    // it does not turn into a wildcard, wrap around or get clamped)
    "900719925474100", "1.900719925474100", "1.2.900719925474100", "2.99999999999999999", ">=1.900719925474100.0", "<900719925474100", "^18446744073709551616", "~1.2.99999999999999999999", "1.x.900719925474100"];

pub const PRE_POOL: &[&[&str]] = &[
    &["0"],
    &["1"],
    &["alpha"],
    &["beta"],
    &["rc", "1"],
    // glued counters: ASCII order puts rc10 before rc2 (a "natural" comparison would not)
    &["rc2"],
    &["rc10"],
    &["alpha", "1"],
    &["alpha", "0"],
    &["a-b"],
    &["-"],
    &["0a"],
    &["x"],
    &["zz"],
    &["a"],
    &["a", "0"],
    &["b"],
    &["10"],
    &["2"],
    &["A"],
];

/// knobs of the generator
#[derive(Clone, Debug)]
pub struct GenCfg {
    /// the numeric pool of this case (collisions are the point)
    pub pool: Vec<u64>,
    /// allow wildcards anywhere (D8 class) / lower-less hyphen (D9) / empty alternative (D10)
    pub allow_misplaced_wild: bool,
    pub allow_lowerless_hyphen: bool,
    pub allow_empty_alt: bool,
    /// leading zero on a zero component (node quirk (a)): excluded for golden generation
    pub allow_zero_zero: bool,
    pub allow_garbage: bool,
    /// probability-ish weight (0..=10) of a prerelease qualifier
    pub pre_weight: u32,
    pub max_alts: usize,
    pub max_toks: usize,
    pub allow_hyphen: bool,
    /// mostly one token per alternative (sides that must parse on their own)
    pub few_toks: bool,
    /// also draw prerelease identifier lists from the version generator (long lists, long identifiers,
    /// numbers up to u64::MAX); off for golden generation (node loses precision above 2^53)
    pub random_pre: bool,
    /// now and then a qualifier long enough to bring the comparator to 255/256 bytes
    pub long_qualifier: bool,
}

impl GenCfg {
    pub fn standard(pool: Vec<u64>) -> GenCfg {
        GenCfg {
            pool,
            allow_misplaced_wild: false,
            allow_lowerless_hyphen: false,
            allow_empty_alt: false,
            allow_zero_zero: true,
            allow_garbage: true,
            pre_weight: 4,
            max_alts: 3,
            max_toks: 3,
            allow_hyphen: true,
            few_toks: false,
            random_pre: true,
            long_qualifier: true,
        }
    }
}

pub fn pool_strategy() -> BoxedStrategy<Vec<u64>> {
    let m = max_int();
    // small numbers and the limits dominate (collisions are the point); the rest of the number line
    // (two-digit values, powers of two and their neighbours, uniform u64 <= MAX) takes part too
    let mid = select(vec![4u64, 5, 7, 9, 12, 20, 42, 64, 99, 100, 127, 128, 255, 256, 1000, 65535, 65536, (1 << 31) - 1, 1 << 31, 1 << 32, (1 << 32) + 1, 1 << 53, (1 << 53) + 1]);
    let extra = prop_oneof![3 => mid.boxed(), 1 => (0..=m).boxed(), 1 => (0..200u64).boxed(), 2 => crate::gen::version::log_uniform(), 1 => crate::gen::version::bit_boundary(), 1 => crate::gen::version::decimal_structured()];
    (proptest::sample::subsequence(vec![0u64, 1, 2, 3, 10, 11, m - 1, m], 2..=3).prop_shuffle(), proptest::collection::vec(extra, 0..=2), 0u8..4)
        .prop_map(|(mut base, extra, k)| {
            // one case in four mixes in one or two numbers from the wider pool, possibly with neighbours
            if k == 0 {
                for e in extra {
                    base.push(e);
                    if e % 2 == 0 {
                        base.push(e + 1);
                    }
                }
            }
            base.retain(|x| *x <= max_int());
            base
        })
        .boxed()
}

fn comp_num(pool: Vec<u64>, zero_zero: bool) -> BoxedStrategy<Comp> {
    (select(pool), prop_oneof![12 => Just(0u8), 1 => Just(1u8), 1 => Just(2u8)])
        .prop_map(move |(val, zeros)| Comp::Num { val, zeros: if val == 0 && !zero_zero { 0 } else { zeros } })
        .boxed()
}

fn wild() -> BoxedStrategy<Comp> {
    select(vec!['x', 'X', '*']).prop_map(Comp::Wild).boxed()
}

pub fn pre_ids() -> BoxedStrategy<Vec<String>> {
    select(PRE_POOL.to_vec()).prop_map(|p| p.iter().map(|s| s.to_string()).collect()).boxed()
}

pub fn pre_ids_wide() -> BoxedStrategy<Vec<String>> {
    prop_oneof![
        5 => pre_ids(),
        1 => crate::gen::version::nonempty_ident_list().prop_map(|l| l.iter().map(|i| i.text()).collect()),
    ]
    .boxed()
}

pub fn partial(cfg: &GenCfg, under_op: bool) -> BoxedStrategy<Partial> {
    let pool = cfg.pool.clone();
    let zz = cfg.allow_zero_zero;
    let misplaced = cfg.allow_misplaced_wild;
    let prew = cfg.pre_weight;
    let comps = prop_oneof![1 => Just(1usize), 1 => Just(2usize), 3 => Just(3usize)].prop_flat_map(move |k| {
        let nums = proptest::collection::vec(comp_num(pool.clone(), zz), k);
        // wildcard pattern: none / trailing from position j / anywhere (finding class)
        let pat = if misplaced {
            prop_oneof![6 => Just(0u8), 2 => Just(1u8), 2 => Just(2u8)].boxed()
        } else {
            prop_oneof![8 => Just(0u8), 2 => Just(1u8)].boxed()
        };
        (nums, pat, 0usize..3, proptest::collection::vec(any::<bool>(), 3), proptest::collection::vec(wild(), 3))
            .prop_map(move |(mut nums, pat, j, mask, wilds)| {
                let k = nums.len();
                match pat {
                    1 => {
                        // trailing wildcards from `start`; under an operator / in a hyphen operand the
                        // major stays numeric unless the finding class is enabled
                        let min_start = if under_op && !misplaced { 1 } else { 0 };
                        if k > min_start {
                            let start = min_start + j % (k - min_start);
                            for i in start..k {
                                nums[i] = wilds[i].clone();
                            }
                        }
                    }
                    2 => {
                        for i in 0..k {
                            if mask[i] {
                                nums[i] = wilds[i].clone();
                            }
                        }
                    }
                    _ => {}
                }
                nums
            })
    });
    (
        comps,
        prop_oneof![(10 - prew.min(9)) => Just(vec![]), prew => if cfg.random_pre { pre_ids_wide() } else { pre_ids() }],
        prop_oneof![7 => Just(vec![]), 1 => select(vec![vec!["b".to_string()], vec!["1".to_string()], vec!["b".to_string(), "2".to_string()], vec!["-".to_string()]])],
        prop_oneof![4 => Just(false), 1 => Just(true)],
        prop_oneof![11 => Just(false), 1 => Just(true)],
        if cfg.long_qualifier { prop_oneof![40 => Just(0usize), 1 => Just(255usize), 1 => Just(256usize)].boxed() } else { Just(0usize).boxed() },
    )
        .prop_map(move |(comps, pre, build, hyphenless, v, long)| {
            let wildc = comps.iter().any(|c| c.is_wild());
            let qual_ok = comps.len() == 3 && (!wildc || misplaced);
            let mut p = Partial { v, comps, pre: if qual_ok { pre } else { vec![] }, build: if qual_ok { build } else { vec![] }, hyphenless };
            if long > 0 && qual_ok && !wildc {
                // a single alphabetic prerelease identifier sized so that the written comparator
                // version is exactly `long` bytes (the printed form is one byte longer when hyphenless)
                p.pre = vec!["a".to_string()];
                p.build = vec![];
                let base = p.render().len();
                if long > base {
                    p.pre = vec![format!("a{}", "b".repeat(long - base))];
                }
            }
            p
        })
        .boxed()
}

pub fn op() -> BoxedStrategy<Op> {
    prop_oneof![
        2 => Just(Op::Bare),
        1 => Just(Op::Eq),
        1 => Just(Op::Lt),
        1 => Just(Op::Le),
        1 => Just(Op::Gt),
        1 => Just(Op::Ge),
        1 => Just(Op::Tilde),
        1 => Just(Op::TildeGt),
        1 => Just(Op::Caret),
    ]
    .boxed()
}

pub fn tok(cfg: &GenCfg) -> BoxedStrategy<Tok> {
    let c1 = cfg.clone();
    let cmp = op().prop_flat_map(move |o| {
        (Just(o), prop_oneof![6 => Just(0u8), 2 => Just(1u8), 2 => Just(2u8), 1 => Just(3u8)], partial(&c1, o != Op::Bare)).prop_map(|(op, blanks, p)| Tok::Cmp { op, blanks, p })
    });
    // wildcard-major shapes that are outside the finding class: `>=x`, `<x.x` ...
    let wild_ok = (select(vec![Op::Ge, Op::Lt]), 1usize..=3, select(vec!['x', 'X', '*']), 0u8..3).prop_map(|(op, k, ch, blanks)| Tok::Cmp {
        op,
        blanks,
        p: Partial { v: false, comps: vec![Comp::Wild(ch); k], pre: vec![], build: vec![], hyphenless: false },
    });
    if cfg.allow_garbage {
        prop_oneof![24 => cmp, 1 => wild_ok, 2 => select(GARBAGE.to_vec()).prop_map(|g| Tok::Garbage(g.to_string()))].boxed()
    } else {
        prop_oneof![24 => cmp, 1 => wild_ok].boxed()
    }
}

pub fn sep() -> BoxedStrategy<String> {
    select(vec![" ", " ", "  ", "\t"]).prop_map(|s| s.to_string()).boxed()
}

pub fn simples(cfg: &GenCfg) -> BoxedStrategy<Alt> {
    let lo = if cfg.allow_empty_alt { 0 } else { 1 };
    let mx = cfg.max_toks;
    let c = cfg.clone();
    let size = if cfg.few_toks {
        prop_oneof![4 => Just(1usize), 1 => Just(2usize)].boxed()
    } else if lo == 0 {
        prop_oneof![1 => Just(0usize), 12 => 1usize..=mx].boxed()
    } else {
        (1usize..=mx).boxed()
    };
    size.prop_flat_map(move |n| (proptest::collection::vec(tok(&c), n), proptest::collection::vec(sep(), n.saturating_sub(1)), 0u8..12))
        .prop_map(|(mut toks, mut seps, dup)| {
            // now and then the same comparator twice
            if dup == 0 && !toks.is_empty() && toks.len() < 4 {
                toks.push(toks[0].clone());
                seps.push(" ".to_string());
            }
            Alt::Simples { toks, seps }
        })
        .boxed()
}

pub fn hyphen(cfg: &GenCfg) -> BoxedStrategy<Alt> {
    let lowerless = cfg.allow_lowerless_hyphen;
    (partial(cfg, true), partial(cfg, true), 0u8..10, prop_oneof![4 => Just((0u8, 0u8)), 1 => (0u8..3, 0u8..3)])
        .prop_map(move |(lo, hi, k, pad)| {
            let lo = if lowerless && k == 0 {
                None
            } else if k == 1 {
                // all-wildcard lower operand (`x - 2`): outside the finding class
                Some(Partial { v: false, comps: vec![Comp::Wild('x'); 1 + (pad.0 as usize % 3)], pre: vec![], build: vec![], hyphenless: false })
            } else {
                Some(lo)
            };
            Alt::Hyphen { lo, hi, pad }
        })
        .boxed()
}

pub fn alt(cfg: &GenCfg) -> BoxedStrategy<Alt> {
    if cfg.allow_hyphen {
        prop_oneof![6 => simples(cfg), 1 => hyphen(cfg)].boxed()
    } else {
        simples(cfg)
    }
}

pub fn range_ast_with(cfg: GenCfg) -> BoxedStrategy<RangeAst> {
    let mx = cfg.max_alts;
    let n = if mx <= 1 {
        Just(1usize).boxed()
    } else {
        prop_oneof![3 => Just(1usize), 2 => 2usize..=mx].boxed()
    };
    let blanks = || prop_oneof![6 => Just(""), 1 => Just(" "), 1 => Just("  "), 1 => Just("\t")];
    n.prop_flat_map(move |n| (proptest::collection::vec(alt(&cfg), n), proptest::collection::vec((0u8..3, 0u8..3), n.saturating_sub(1)), 0u8..12))
        .prop_map(move |(mut alts, mut ors, dup)| {
            // now and then the same alternative twice
            if dup == 0 && alts.len() < 4 && mx > 1 {
                alts.push(alts[0].clone());
                ors.push((1, 1));
            }
            (alts, ors)
        })
        .prop_flat_map(move |(alts, ors)| (Just(alts), Just(ors), blanks(), blanks()))
        .prop_map(|(alts, ors, lead, trail)| RangeAst { alts, ors, lead: lead.to_string(), trail: trail.to_string() })
        .boxed()
}

/// standard: fresh pool per case
pub fn range_ast(mk: impl Fn(Vec<u64>) -> GenCfg + 'static + Clone) -> BoxedStrategy<(Vec<u64>, RangeAst)> {
    pool_strategy()
        .prop_flat_map(move |pool| {
            let cfg = mk(pool.clone());
            (Just(pool), range_ast_with(cfg))
        })
        .boxed()
}
