//! auxiliary sub-commands (golden generation, probes ...)
pub fn dispatch(_args: &[String]) -> Option<i32> {
    None
}
