//! auxiliary sub-commands (golden generation, probes ...)
use crate::gen::version as gv;
use crate::model::version::*;
use proptest::strategy::{Strategy, ValueTree};
use proptest::test_runner::{Config, RngSeed, TestRunner};

pub fn runner(seed: u64) -> TestRunner {
    TestRunner::new(Config { rng_seed: RngSeed::Fixed(seed), failure_persistence: None, ..Config::default() })
}

fn js_safe(v: &MVersion) -> bool {
    // node loses precision for numeric identifiers >= 2^53
    v.pre.iter().chain(v.build.iter()).all(|i| match i {
        MId::Num(n) => *n < (1u64 << 53),
        MId::Str(_) => true,
    }) && v.text().len() <= 256
}

pub fn dispatch(args: &[String]) -> Option<i32> {
    match args[0].as_str() {
        "gen-version-pairs" => {
            // vcheck gen-version-pairs N SEED  -> "a\tb" lines for node
            let n: usize = args[1].parse().unwrap();
            let seed: u64 = args[2].parse().unwrap();
            let mut r = runner(seed);
            let strat = gv::related(2);
            let mut k = 0;
            // the exhaustive diff scope first
            let sc = crate::props::c16::scope();
            for a in sc.iter().step_by(3) {
                for b in sc.iter().step_by(5) {
                    println!("{}\t{}", a.text(), b.text());
                }
            }
            while k < n {
                let vs = strat.new_tree(&mut r).unwrap().current();
                if js_safe(&vs[0]) && js_safe(&vs[1]) {
                    println!("{}\t{}", vs[0].text(), vs[1].text());
                    k += 1;
                }
            }
            Some(0)
        }
        "gen-range-golden" => {
            // vcheck gen-range-golden N SEED -> JSON lines {ast,text,probes} for node (design-time)
            use crate::gen::range_ast as ga;
            use crate::model::{npm, probes};
            let n: usize = args[1].parse().unwrap();
            let seed: u64 = args[2].parse().unwrap();
            let mut r = runner(seed);
            let strat = ga::pool_strategy().prop_flat_map(|pool| {
                let mut cfg = ga::GenCfg::standard(pool.clone());
                cfg.allow_misplaced_wild = true;
                cfg.allow_lowerless_hyphen = true;
                cfg.allow_empty_alt = true;
                cfg.allow_zero_zero = false;
                (ga::range_ast_with(cfg), crate::props::c01::extra_versions(pool))
            });
            // the single-token table first
            for (op, p) in crate::props::c01::token_table() {
                let ast = ga::RangeAst::single(ga::Alt::Simples { toks: vec![ga::Tok::Cmp { op, blanks: 0, p }], seps: vec![] });
                let probes: Vec<String> = crate::props::c01::probe_grid().iter().step_by(3).map(|v| v.text()).collect();
                println!("{}", serde_json::json!({"ast": ast, "text": ast.render(), "probes": probes}));
            }
            for _ in 0..n {
                let (ast, extra) = strat.new_tree(&mut r).unwrap().current();
                let sets = npm::desugar(&ast);
                let pv = probes::probes(&crate::props::c01::interesting(&sets), &extra);
                let probes: Vec<String> = pv.iter().filter(|v| js_safe(v)).map(|v| v.strip_build().text()).collect();
                println!("{}", serde_json::json!({"ast": ast, "text": ast.render(), "probes": probes}));
            }
            Some(0)
        }
        _ => None,
    }
}
