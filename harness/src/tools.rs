//! auxiliary sub-commands (golden generation, probes ...)
use crate::gen::version as gv;
use crate::model::version::*;
use proptest::strategy::{Strategy, ValueTree};
use proptest::test_runner::{Config, RngSeed, TestRunner};

pub fn runner(seed: u64) -> TestRunner {
    TestRunner::new(Config { rng_seed: RngSeed::Fixed(seed), failure_persistence: None, ..Config::default() })
}

fn js_safe(v: &MVersion) -> bool {
    // node loses precision for numeric identifiers >= 2^53
    v.pre.iter().chain(v.build.iter()).all(|i| match i {
        MId::Num(n) => *n < (1u64 << 53),
        MId::Str(_) => true,
    }) && v.text().len() <= 256
}

pub fn dispatch(args: &[String]) -> Option<i32> {
    match args[0].as_str() {
        "gen-version-pairs" => {
            // vcheck gen-version-pairs N SEED  -> "a\tb" lines for node
            let n: usize = args[1].parse().unwrap();
            let seed: u64 = args[2].parse().unwrap();
            let mut r = runner(seed);
            let strat = gv::related(2);
            let mut k = 0;
            // the exhaustive diff scope first
            let sc = crate::props::c16::scope();
            for a in sc.iter().step_by(3) {
                for b in sc.iter().step_by(5) {
                    println!("{}\t{}", a.text(), b.text());
                }
            }
            while k < n {
                let vs = strat.new_tree(&mut r).unwrap().current();
                if js_safe(&vs[0]) && js_safe(&vs[1]) {
                    println!("{}\t{}", vs[0].text(), vs[1].text());
                    k += 1;
                }
            }
            Some(0)
        }
        _ => None,
    }
}
