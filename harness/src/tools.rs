//! auxiliary sub-commands (golden generation, probes ...)
use crate::gen::version as gv;
use crate::model::version::*;
use proptest::strategy::{Strategy, ValueTree};
use proptest::test_runner::{Config, RngSeed, TestRunner};

pub fn runner(seed: u64) -> TestRunner {
    TestRunner::new(Config { rng_seed: RngSeed::Fixed(seed), failure_persistence: None, ..Config::default() })
}

fn js_safe(v: &MVersion) -> bool {
    // node loses precision for numeric identifiers >= 2^53
    v.pre.iter().chain(v.build.iter()).all(|i| match i {
        MId::Num(n) => *n < (1u64 << 53),
        MId::Str(_) => true,
    }) && v.text().len() <= 256
}

pub fn dispatch(args: &[String]) -> Option<i32> {
    match args[0].as_str() {
        "gen-version-pairs" => {
            // vcheck gen-version-pairs N SEED  -> "a\tb" lines for node
            let n: usize = args[1].parse().unwrap();
            let seed: u64 = args[2].parse().unwrap();
            let mut r = runner(seed);
            let strat = gv::related(2);
            let mut k = 0;
            // the exhaustive diff scope first
            let sc = crate::props::c16::scope();
            for a in sc.iter().step_by(3) {
                for b in sc.iter().step_by(5) {
                    println!("{}\t{}", a.text(), b.text());
                }
            }
            while k < n {
                let vs = strat.new_tree(&mut r).unwrap().current();
                if js_safe(&vs[0]) && js_safe(&vs[1]) {
                    println!("{}\t{}", vs[0].text(), vs[1].text());
                    k += 1;
                }
            }
            Some(0)
        }
        "gen-range-golden" => {
            // vcheck gen-range-golden N SEED -> JSON lines {ast,text,probes} for node (design-time)
            use crate::gen::range_ast as ga;
            use crate::model::{npm, probes};
            let n: usize = args[1].parse().unwrap();
            let seed: u64 = args[2].parse().unwrap();
            let mut r = runner(seed);
            let strat = ga::pool_strategy().prop_flat_map(|pool| {
                let mut cfg = ga::GenCfg::standard(pool.clone());
                cfg.allow_misplaced_wild = true;
                cfg.allow_lowerless_hyphen = true;
                cfg.allow_empty_alt = true;
                cfg.allow_zero_zero = false;
                cfg.long_qualifier = false; // node applies its 256-character version limit to the desugared comparator
                cfg.random_pre = true; // ASTs with numeric identifiers >= 2^53 are skipped below (node loses precision)
                (ga::range_ast_with(cfg), crate::props::c01::extra_versions(pool))
            });
            // the single-token table first
            for (op, p) in crate::props::c01::token_table() {
                let ast = ga::RangeAst::single(ga::Alt::Simples { toks: vec![ga::Tok::Cmp { op, blanks: 0, p }], seps: vec![] });
                let probes: Vec<String> = crate::props::c01::probe_grid().iter().step_by(3).map(|v| v.text()).collect();
                println!("{}", serde_json::json!({"ast": ast, "text": ast.render(), "probes": probes}));
            }
            let mut k = 0;
            while k < n {
                let (ast, extra) = strat.new_tree(&mut r).unwrap().current();
                let big = ast.all_partials().iter().any(|(p, _)| {
                    p.pre.iter().chain(p.build.iter()).any(|t| t.bytes().all(|b| b.is_ascii_digit()) && (t.len() > 15 || t.parse::<u64>().map(|x| x >= (1 << 53)).unwrap_or(true)))
                });
                if big {
                    continue;
                }
                k += 1;
                let sets = npm::desugar(&ast);
                let pv = probes::probes(&crate::props::c01::interesting(&sets), &extra);
                let probes: Vec<String> = pv.iter().filter(|v| js_safe(v)).map(|v| v.strip_build().text()).collect();
                println!("{}", serde_json::json!({"ast": ast, "text": ast.render(), "probes": probes}));
            }
            Some(0)
        }
        "c06-risky" => {
            unsafe {
                libc::prctl(libc::PR_SET_PDEATHSIG, libc::SIGKILL); // never outlive the check that started it
            }
            Some(crate::props::c06::risky_child(&args[1]))
        }
        "fuzz-replay" => {
            // vcheck fuzz-replay <Cxx> <target> <artifact>: re-execute a libFuzzer artifact through the plain path
            let (id, target, path) = (args[1].as_str(), args[2].as_str(), args[3].as_str());
            let data = match std::fs::read(path) {
                Ok(d) => d,
                Err(e) => {
                    eprintln!("cannot read {}: {}", path, e);
                    return Some(2);
                }
            };
            let mut st = crate::engine::Stats::default();
            st.frozen = true;
            let mut results: Vec<(&str, &str, serde_json::Value, Result<(), crate::engine::Failure>)> = vec![];
            match target {
                "ops_c06" => {
                    let pool = crate::fuzzdec::decode_pool(&data);
                    let r = crate::engine::guard(|| crate::props::c06::check_pool(&pool, &mut st)).unwrap_or_else(|p| Err(crate::engine::Failure::new("panic", p)));
                    results.push(("C06", "pools", serde_json::json!(pool), r));
                }
                "range_ast_c01" => {
                    if let Some(case) = crate::fuzzdec::decode_ast_case(&data) {
                        let r = crate::engine::guard(|| crate::props::c01::check_case(&case, &mut st)).unwrap_or_else(|p| Err(crate::engine::Failure::new("panic", p)));
                        results.push(("C01", "ast", serde_json::to_value(&case).unwrap(), r));
                    }
                }
                "version_text_c05_c17" => {
                    let s = crate::fuzzdec::decode_text(&data);
                    let r5 = crate::engine::guard(|| crate::props::c05::check_string(&s, &mut st)).unwrap_or_else(|p| Err(crate::engine::Failure::new("panic", p)));
                    results.push(("C05", "text", serde_json::json!(s), r5));
                    let r17 = crate::engine::guard(|| crate::props::c17::check_string(&s, &mut st)).unwrap_or_else(|p| Err(crate::engine::Failure::new("panic", p)));
                    results.push(("C17", "text", serde_json::json!(s), r17));
                }
                "algebra_c07_c15" => {
                    if let Some(case) = crate::fuzzdec::decode_alg_case(&data) {
                        let only = std::env::var("VCHECK_FUZZ_PROP").ok().filter(|s| !s.is_empty()).unwrap_or_else(|| id.to_string());
                        let rs = crate::engine::guard(|| crate::fuzzdec::check_alg(&case, Some(only.as_str()), &mut st));
                        match rs {
                            Ok(v) => {
                                for (prop, cj, r) in v {
                                    results.push((prop, "fuzz", cj, r));
                                }
                            }
                            Err(p) => results.push(("C06", "pools", serde_json::json!(format!("{:?}", case)), Err(crate::engine::Failure::new("panic", p)))),
                        }
                    }
                }
                _ => {
                    eprintln!("unknown target {}", target);
                    return Some(2);
                }
            }
            let mut rc = 2; // artifact that does not reproduce: inconclusive
            let mut any_fail = false;
            for (prop, campaign, case, r) in results {
                if let Err(f) = r {
                    if f.message.starts_with(crate::engine::INCONCLUSIVE) {
                        eprintln!("[{}] fuzz artifact: {}", prop, f.message);
                        continue;
                    }
                    any_fail = true;
                    let dir = format!("{}/work/replays", crate::findings::verif_dir());
                    let _ = std::fs::create_dir_all(&dir);
                    let out = format!("{}/{}-fuzz-{}-{}.json", dir, prop, f.check, crate::engine::hash_of(&data) % 100000);
                    let body = serde_json::json!({"property": prop, "campaign": campaign, "check": f.check, "message": f.message, "case": case, "origin": format!("libFuzzer {} {}", target, path)});
                    let _ = std::fs::write(&out, serde_json::to_string_pretty(&body).unwrap());
                    eprintln!("[{}] fuzz / {}: {}", prop, f.check, f.message);
                    // report under the property the relation belongs to; the invoking check owns the exit code
                    println!("VIOLATION property={} replay={}", prop, out);
                    if prop == id || (id == "C05" && prop == "C17") || (id == "C17" && prop == "C05") {
                        rc = 1;
                    } else {
                        rc = 1;
                    }
                }
            }
            if !any_fail {
                eprintln!("[{}] fuzz artifact {} does not reproduce through the plain replay path (inconclusive)", id, path);
            }
            Some(rc)
        }
        "fuzz-evidence" => {
            // vcheck fuzz-evidence <Cxx> <target> <execs> <corpus> <cov> <jobs> <runs>: merge into the evidence file
            let id = args[1].as_str();
            let path = format!("{}/evidence/{}.json", crate::findings::verif_dir(), id);
            let mut v: serde_json::Value = match std::fs::read_to_string(&path).ok().and_then(|s| serde_json::from_str(&s).ok()) {
                Some(v) => v,
                None => return Some(2),
            };
            let n = |i: usize| args.get(i).and_then(|s| s.parse::<u64>().ok()).unwrap_or(0);
            let fz = serde_json::json!({"engine": "cargo-fuzz 0.13 / libFuzzer, debug assertions + overflow checks, no sanitizer (no unsafe code in the crate)", "target": args[2], "executed_units": n(3), "corpus_files": n(4),
                "coverage_edges": n(5), "jobs": n(6), "runs_per_job": n(7), "oracle": "inside the target (same check function as the proptest campaign)"});
            if let Some(c) = v.get_mut("coverage").and_then(|c| c.as_object_mut()) {
                c.insert("fuzz".into(), fz);
                let ev = c.get("evaluations").and_then(|e| e.as_u64()).unwrap_or(0);
                c.insert("evaluations".into(), serde_json::json!(ev + n(3)));
            }
            let _ = std::fs::write(&path, serde_json::to_string_pretty(&v).unwrap());
            Some(0)
        }
        _ => None,
    }
}
