//! Type-agnostic greedy minimiser on the JSON form of a failing case (proptest's own shrinking is
//! weak behind `prop_flat_map`): try one-step structural reductions, keep a candidate when it still
//! deserialises into the case type and still fails the *same* check.
use serde_json::Value;

fn key(v: &Value) -> (usize, String) {
    let s = v.to_string();
    (s.len(), s)
}

/// all values obtained from `v` by one local reduction somewhere inside it
fn candidates(v: &Value, out: &mut Vec<Value>, budget: &mut usize) {
    if *budget == 0 {
        return;
    }
    match v {
        Value::Array(a) => {
            // drop halves, then single elements
            if a.len() >= 4 {
                out.push(Value::Array(a[..a.len() / 2].to_vec()));
                out.push(Value::Array(a[a.len() / 2..].to_vec()));
            }
            for i in (0..a.len()).rev() {
                let mut b = a.clone();
                b.remove(i);
                out.push(Value::Array(b));
            }
            // replace the array by one of its elements' reductions
            for i in 0..a.len() {
                let mut subs = vec![];
                candidates(&a[i], &mut subs, budget);
                for s in subs {
                    let mut b = a.clone();
                    b[i] = s;
                    out.push(Value::Array(b));
                }
            }
        }
        Value::Object(o) => {
            for (k, x) in o {
                let mut subs = vec![];
                candidates(x, &mut subs, budget);
                for s in subs {
                    let mut b = o.clone();
                    b.insert(k.clone(), s);
                    out.push(Value::Object(b));
                }
            }
        }
        Value::String(s) => {
            if !s.is_empty() {
                out.push(Value::String(String::new()));
                let chars: Vec<char> = s.chars().collect();
                if chars.len() >= 4 {
                    out.push(Value::String(chars[..chars.len() / 2].iter().collect()));
                    out.push(Value::String(chars[chars.len() / 2..].iter().collect()));
                }
                if chars.len() <= 64 {
                    for i in 0..chars.len() {
                        let mut c = chars.clone();
                        c.remove(i);
                        out.push(Value::String(c.into_iter().collect()));
                    }
                }
                for simple in ["a", "0", "1"] {
                    if s.len() > 1 {
                        out.push(Value::String(simple.to_string()));
                    }
                }
            }
        }
        Value::Number(n) => {
            if let Some(u) = n.as_u64() {
                for c in [0u64, 1, 2, u / 2, u.saturating_sub(1)] {
                    if c < u {
                        out.push(Value::from(c));
                    }
                }
            }
        }
        Value::Bool(true) => out.push(Value::Bool(false)),
        _ => {}
    }
    *budget = budget.saturating_sub(1);
}

/// `still_fails(candidate)` must return true iff the candidate deserialises and fails the same check.
pub fn minimize(start: Value, max_tests: usize, mut still_fails: impl FnMut(&Value) -> bool) -> Value {
    let mut cur = start;
    let mut tests = 0;
    loop {
        let mut cands = vec![];
        let mut budget = 5000usize;
        candidates(&cur, &mut cands, &mut budget);
        let ck = key(&cur);
        cands.retain(|c| key(c) < ck);
        cands.sort_by_key(|c| key(c));
        cands.dedup();
        let mut improved = false;
        for c in cands {
            if tests >= max_tests {
                return cur;
            }
            tests += 1;
            if still_fails(&c) {
                cur = c;
                improved = true;
                break;
            }
        }
        if !improved {
            return cur;
        }
    }
}
