#!/bin/bash
# ./run_all.sh [quick|thorough]  -- every property, one line each; validates evidence files
TIER="${1:-quick}"
cd "$(dirname "$0")"
HERE="$(pwd)"
rc_all=0
for i in $(seq -w 1 18); do
  id="C$i"
  s=$(date +%s.%N)
  out=$(./run.sh $id $TIER 2>&1); rc=$?
  e=$(date +%s.%N)
  printf "%s rc=%d wall=%.1fs %s\n" $id $rc $(echo "$e - $s" | bc) "$(echo "$out" | grep -E '^\[C' | tail -1 | cut -c1-150)"
  echo "$out" | grep -E "^(VIOLATION|KNOWN-FINDING)" | cut -c1-220
  [ $rc -ne 0 ] && rc_all=1
done
HERE="$HERE" python3-vt - <<'PY'
import json,jsonschema,glob,os
sch=json.load(open('/root/.vp/EVIDENCE.schema.json'))
for f in sorted(glob.glob(os.environ.get('HERE','/verif')+'/evidence/*.json')):
    try: jsonschema.validate(json.load(open(f)),sch)
    except Exception as e: print('INVALID',f,str(e)[:200])
print('evidence files validated:',len(glob.glob(os.environ.get('HERE','/verif')+'/evidence/*.json')))
PY
exit $rc_all
