#!/usr/bin/env python3
"""Regenerates MANIFEST.json from the table below (kept in one place so it stays valid)."""
import json, sys
ALL = ["C%02d" % i for i in range(1, 19)]
CHECKS = {
 "C04": dict(
   technique="property-based testing: exhaustive small-scope pairs/triples + proptest related-version lists against a SemVer section-11 model comparator and the order laws",
   text="Generated-input search: all 831,744 ordered pairs of a 912-version small scope, all triples of a stratified subset, and random lists of related versions, each compared with an independent SemVer precedence model and checked for the total-order, Eq/Hash and sort/min/max laws. Exploration only: no claim beyond the inputs explored.",
   note="trusts the model comparator (40 lines, written from the SemVer text) and std's sort/Hash plumbing; numeric identifiers < 2^64",
   design="6/C04"),
}
NOT_BUILT = "check not built yet (work in progress; the design claims it)"
def main():
    checks = []
    for pid in ALL:
        if pid not in CHECKS: continue
        c = CHECKS[pid]
        checks.append({
            "property_id": pid,
            "quick_cmd": "./run.sh %s quick" % pid,
            "thorough_cmd": "./run.sh %s thorough" % pid,
            "evidence_file": "/verif/evidence/%s.json" % pid,
            "replay_cmd_template": "./run.sh %s --replay {path}" % pid,
            "engine": "vcheck",
            "level_claimed": {"category": "exploration", "text": c["text"], "design_ref": c["design"]},
            "level_note": c["note"],
            "technique": c["technique"],
        })
    m = {
      "version": 1,
      "setup_cmd": "cd /verif/harness && CARGO_NET_OFFLINE=true cargo build --release --offline",
      "hooks": {
        "guard": "nodejs_semver_verif",
        "enable": "no hooks are needed: every property is observed through the public API (RUSTFLAGS='--cfg nodejs_semver_verif' would enable them if any existed)",
        "baseline_off_cmd": "cd /repo && cargo test --workspace --no-fail-fast --offline",
        "source_commits": [],
        "add_only": True,
      },
      "engines": [
        {"name": "vcheck", "path": "/verif/harness", "serves_properties": sorted(CHECKS), "kind_free_text": "Rust binary: proptest 1.11 TestRunner campaigns sharded over 16 threads + exhaustive enumerations, independent reference models (SemVer order, npm range desugaring, interval algebra) as oracles; path dependency on /repo so every run rebuilds the working tree"},
      ],
      "checks": checks,
      "notes": "All checks: exit 0 held / 1 VIOLATION line + replay file / 2 inconclusive (build failure, oracle self-test). Known findings: /verif/known_findings.json.",
      "not_applicable": [{"property_id": p, "reason": NOT_BUILT} for p in ALL if p not in CHECKS],
    }
    json.dump(m, open("/verif/MANIFEST.json", "w"), indent=1)
main()
