#!/usr/bin/env python3
"""Regenerates MANIFEST.json from the table below (kept in one place so it stays valid)."""
import json, sys
ALL = ["C%02d" % i for i in range(1, 19)]
def C(technique, text, note, design):
    return dict(technique=technique, text=text, note=note, design=design)
EXPL = " Exploration only: generated-input search establishes nothing beyond the inputs explored; exhaustively enumerated sub-spaces are listed in the evidence file."
CHECKS = {
 "C01": C("property-based differential testing: AST-generated range texts x boundary probes against an independent npm-desugaring model (golden-validated against node-semver), exhaustive single-token table, libFuzzer target in the thorough tier",
   "Generated range texts (grammar AST rendered with all loose spellings) and an exhaustive 3060-token table are compared pointwise, at ~40 boundary probes per comparator version, with an oracle that implements npm's documented desugaring on the AST; the oracle itself is first replayed against 410k frozen node-semver 7.6.2 answers." + EXPL,
   "trusts the npm model (model/npm.rs, validated against golden/npm_range.jsonl) and the probe construction; two open findings (wildcards under operators, '<N' without -0) are excluded by construction / by signature and reported as KNOWN-FINDING", "6/C01"),
 "C02": C("metamorphic property-based testing (crate vs crate): `a || b` vs a, b and `a b` vs a, b at boundary probes; permutations of tokens and alternatives",
   "Pairs of parseable range texts are joined by `||` and by blanks; the joined range must answer exactly as the union / (bounds-)intersection law of the statement prescribes at every probe, an empty conjunction must not widen, and every permutation answers identically." + EXPL,
   "in-bounds membership of the operands is read from their printed interval form; sides that do not parse alone are discarded (counted)", "6/C02"),
 "C03": C("property-based differential + metamorphic testing focused on prerelease probes: npm gate from the AST, build-metadata invariance, release==bounds, resolver view",
   "Ranges dense in prerelease-tagged comparators (and, in a second campaign, results of intersect/difference trees, whose satisfies() must follow the printed bounds and the gate) are probed with prereleases on the same / neighbouring / unrelated tuples and tags before/between/after; answers must equal the npm gate computed from the AST, be invariant under build metadata on either side, leave releases untouched, and max/min_satisfying must never surface a gated-out prerelease." + EXPL,
   "same oracle as C01; generator health (both gate outcomes and both opt-in sides >= 5%) is enforced as exit 2", "6/C03"),
 "C04": C("property-based testing: exhaustive small-scope pairs/triples + proptest related-version lists against a SemVer section-11 model comparator and the order laws",
   "All 831,744 ordered pairs of a 912-version small scope, all triples of a stratified subset, all ordered pairs of a bit-boundary scope (fields from {0,1,2^k-1,2^k,2^k+1}, k=1..50) and random lists of related versions (struct literals and parsed spellings, incl. zero-padded numeric identifiers; HashSet/BTreeSet/HashMap built from the list must have one entry per precedence class) are compared with an independent SemVer precedence model (golden-validated against node) and checked for the total-order, Eq/Hash and sort/min/max laws." + EXPL,
   "trusts the model comparator (40 lines, written from the SemVer text) and std's sort/Hash plumbing; numeric identifiers < 2^64", "6/C04"),
 "C05": C("exhaustive short-string enumeration + single-edit mutation + proptest, against an independent three-class recogniser (must accept / may accept / must reject) with field denotation",
   "Every string up to length 7 (8 thorough) over the version alphabet, every single edit of generated canonical versions over a 58-character alphabet, a length/integer limit family, random spelled versions, token soup and primed pairs (a sibling spelling is parsed first: the verdict may not depend on the call history) are classified by an independent recogniser; Version::parse, FromStr and serde must accept every canonical string with exactly the denoted fields and reject everything outside the canonical+loose language." + EXPL,
   "acceptance of the documented loose spellings (blanks, v prefix, hyphenless prerelease) is left open (MAY class), as the statement does", "6/C05"),
 "C06": C("fuzz-style robustness search: proptest input pools + exhaustive short strings through the whole public API under catch_unwind with overflow checks and debug assertions; CPU-time scaling measurement; libFuzzer+ASan target in the thorough tier",
   "Long inputs and operands with thousands of alternatives run in supervised child processes on a 256 KiB stack (a child killed by a signal - stack overflow, abort - is a violation). Pools of adversarial strings go through both parsers, every error accessor/diagnostic, every unary operation and all binary operations on all ordered pairs (incl. self) and on their results to depth 3, in a build with arithmetic-overflow checks and debug assertions; any panic is a violation. A watchdog reports a hang as inconclusive; CPU-time ratios t(8n)/t(n) of 16 adversarial input families decide the linear-time clause." + EXPL,
   "the time clause is attacked through 30 fixed adversarial families plus generated ones (600 / 12 000 random units of 1..4 tokens, optionally indexed, repeated n and 8n times); a super-linear path that needs a longer or more structured unit would be missed; binary operations are O(|A||B|) by nature and operands are capped at 64 alternatives", "6/C06"),
 "C07": C("property-based testing with a pointwise set-semantics oracle on interval models read from Display; exact emptiness computation for None; libFuzzer target algebra_c07_c15 (bytes -> expression trees over one version pool, same relation and oracle inside the target) in the thorough tier",
   "Pairs of Range values (leaves over an adjacent-version pool, or results of earlier operations) are intersected; membership in bounds, satisfies() for releases and the two prerelease implications are compared at ~40 probes per bound with the boolean combination of the operands' own answers; None requires an exactly empty overlap; commutativity and idempotence are checked pointwise." + EXPL,
   "bounds membership of a Range value is read from its canonical Display (a 30-line tokenizer; unreadable output is exit 2)", "6/C07"),
 "C08": C("property-based testing with a pointwise set-semantics oracle incl. the partition law A = (A∩B) ⊎ (A\\B); exact remainder computation for None; libFuzzer target algebra_c07_c15 (bytes -> expression trees over one version pool, same relation and oracle inside the target) in the thorough tier",
   "As C07 for difference, with multi-alternative subtrahends, subtrahends inside the minuend and touching its endpoints: within(A\\B) == within(A) && !within(B) for every alternative of B, release satisfies, exact None, and the partition with intersect." + EXPL,
   "as C07; satisfies() of prereleases on the result is not asserted beyond bounds", "6/C08"),
 "C09": C("exhaustive enumeration of bound-kind x relative-position pairs + property-based pairs: three-way equivalence allows_any / intersect.is_some / reversed, probes and exact-version ranges; libFuzzer target algebra_c07_c15 (bytes -> expression trees over one version pool, same relation and oracle inside the target) in the thorough tier",
   "Every ordered pair of the 91 single intervals over an adjacent 6-version chain (all inclusive/exclusive/unbounded combinations), unions over a stratified subset, and random pairs: allows_any must equal intersect.is_some() and its mirror image, be false for separated or merely touching ranges, true whenever a probe satisfies both, and agree with bounds membership for exact-version ranges." + EXPL,
   "true for an overlap that is bound-wise valid but holds no version (e.g. >1.0.0 <1.0.1-0) is not contradicted by the statement and is not flagged", "6/C09"),
 "C10": C("exhaustive enumeration of bound-kind pairs + property-based pairs: soundness implication checked exactly on interval models and on probes, link to difference; libFuzzer target algebra_c07_c15 (bytes -> expression trees over one version pool, same relation and oracle inside the target) in the thorough tier",
   "allows_all(A,B)=true must imply (exactly, by interval computation, and at every probe) that nothing of the single-alternative B lies outside A, imply allows_any, hold reflexively, and for single-alternative A equal B.difference(A).is_none()." + EXPL,
   "completeness for multi-alternative A is not asserted (the statement gives only the implication)", "6/C10"),
 "C11": C("property-based extremal witness search: exact least element on the interval model + boundary probes, every verdict confirmed against the crate's own satisfies(); libFuzzer target algebra_c07_c15 (bytes -> expression trees over one version pool, same relation and oracle inside the target) in the thorough tier",
   "For ranges from the grammar generator, from algebra results and from the statement's named shapes, min_version() must satisfy the range, no lower candidate may satisfy it, and None requires that no candidate satisfies; candidates are the exact least satisfying version of each interval (discrete-order argument) plus ~40 probes per bound." + EXPL,
   "only the crate's own satisfies() decides a witness", "6/C11"),
 "C12": C("property-based round-trip testing over generated spellings and struct literals, incl. serde",
   "Versions parsed from generated spellings (all loose forms, values at MAX_SAFE_INTEGER, lengths at MAX_LENGTH) or built from canonical identifiers are printed and re-parsed: five-field equality, print fixed point, serde JSON == quoted print and round-trips through from_str, from_value, from_reader and fully escaped text; Display into failing writers and under width/alignment/sign flags must leave the text intact." + EXPL,
   "one known finding (256-byte hyphenless prerelease prints as 257 bytes) is excluded by signature", "6/C12"),
 "C13": C("property-based round-trip testing over parsed ranges and intersect/difference expression trees, pointwise equivalence + equality + print fixed point + serde; libFuzzer target algebra_c07_c15 (bytes -> expression trees over one version pool, same relation and oracle inside the target) in the thorough tier",
   "Ranges from Range::parse and from compositions of set operations are printed and re-parsed: satisfies() and bounds membership unchanged at ~40 probes per bound, == (and equal hashes, equal clones) for parsed ranges, second print stable, serde round trip through four front ends, Display robust against failing writers and format flags." + EXPL,
   "one known finding (a desugared bound component MAX_SAFE_INTEGER+1 prints but does not re-parse) is excluded by signature on the printed text", "6/C13"),
 "C14": C("property-based testing with a validity predicate over the output (element of the slice by pointer identity, satisfies, extreme by the model order) and permutation invariance",
   "For generated ranges (parsed, or results of set operations, or Range::any()) and lists of 0..12 or 60..140 versions drawn at and around the bounds (incl. versions above MAX.MAX.MAX) (duplicates, build-only differences, gated-out prereleases above the best release), max/min_satisfying must return None exactly when nothing satisfies, otherwise a pointer into the slice that satisfies and is extreme by an independent SemVer comparison, unchanged under permutations up to precedence-equal elements." + EXPL,
   "relative to the crate's own satisfies(), as the statement is", "6/C14"),
 "C15": C("property-based testing over expression trees: boolean evaluation from the leaves' interval models as oracle for 15 composite trees per case (all listed identities at once), re-parse and re-use of every result; libFuzzer target algebra_c07_c15 (bytes -> expression trees over one version pool, same relation and oracle inside the target) in the thorough tier",
   "Triples of expression trees are combined into 15 composites of depth <= 3; membership in the bounds of every crate-computed value (and satisfies() for releases) must equal the boolean evaluation of the tree from the leaves' models at probes around every bound in the trees; every result must print, re-parse pointwise-equal and work as an operand again." + EXPL,
   "bounds membership is read from Display; operands capped at 64 alternatives", "6/C15"),
 "C16": C("exhaustive small-scope pairs + property-based pairs against a model port of node-semver's diff (golden-validated), symmetry, None<=>equal, build invariance",
   "All 46,656 ordered pairs of a 216-version scope and random related pairs: diff must equal the model port of node-semver 7.6 diff (itself replayed against 63k frozen node answers), be symmetric, None exactly for precedence-equal versions, and ignore build metadata." + EXPL,
   "node-semver 7.6.2 functions/diff.js is the reference for 'the release type node-semver reports'", "6/C16"),
 "C17": C("exhaustive short strings + single edits + limit family + proptest multi-line/multi-byte inputs; validity predicates on every returned error (input, offset, location, diagnostics, prescribed kinds)",
   "Every Err of Version::parse / Range::parse over the C05 domains plus garbage-only ranges, over-long multi-line inputs and very long inputs (up to 3 MB, both sides of 2^9..2^20) must carry the original input, a char-boundary offset, the recomputed line/column, renderable miette diagnostics, and the kind the statement prescribes (MaxLengthError, MaxIntError(value)@component, ParseIntError, NoValidRanges)." + EXPL,
   "column unit (bytes or chars) left open; miette's fancy handler cannot be built offline", "6/C17"),
 "C18": C("exhaustive u8/i8 tuples + boundary cross product + proptest across all ten integer types, differential against struct fields, Display and Version::parse",
   "Value tuples (exhaustive u8/i8, every triple over {0,1,2,..,2^k-1,2^k,2^k+1,MAX-1,MAX}, decimal-structured values d*10^k / 10^k+-1 / m*10^k in every position, random incl. log-uniform) are pushed through every integer type that can hold them; fields must equal the numbers, Display must be a.b.c[-d], Version::parse of that text must give the same five fields." + EXPL,
   "negative values are outside the property", "6/C18"),
}
NOT_BUILT = "check not built yet (work in progress; the design claims it)"
def main():
    checks = []
    for pid in ALL:
        if pid not in CHECKS: continue
        c = CHECKS[pid]
        checks.append({
            "property_id": pid,
            "quick_cmd": "./run.sh %s quick" % pid,
            "thorough_cmd": "./run.sh %s thorough" % pid,
            "evidence_file": "/verif/evidence/%s.json" % pid,
            "replay_cmd_template": "./run.sh %s --replay {path}" % pid,
            "engine": "vcheck",
            "level_claimed": {"category": "exploration", "text": c["text"], "design_ref": c["design"]},
            "level_note": c["note"],
            "technique": c["technique"],
        })
    m = {
      "version": 1,
      "setup_cmd": "cd /verif/harness && CARGO_NET_OFFLINE=true cargo build --release --offline",
      "hooks": {
        "guard": "nodejs_semver_verif",
        "enable": "no hooks are needed: every property is observed through the public API (RUSTFLAGS='--cfg nodejs_semver_verif' would enable them if any existed)",
        "baseline_off_cmd": "cd /repo && cargo test --workspace --no-fail-fast --offline",
        "source_commits": [],
        "add_only": True,
      },
      "engines": [
        {"name": "vcheck", "path": "/verif/harness", "serves_properties": sorted(CHECKS), "kind_free_text": "Rust binary: proptest 1.11 TestRunner campaigns sharded over 16 threads + exhaustive enumerations, independent reference models (SemVer order, npm range desugaring, interval algebra) as oracles; path dependency on /repo so every run rebuilds the working tree"},
      ],
      "checks": checks,
      "notes": "All checks: exit 0 held / 1 VIOLATION line + replay file / 2 inconclusive (build failure, oracle self-test failed, printed ranges unreadable for the model, or - for checks other than C06 - the code under test hung or killed the process: that is C06's property and C06 reports it as a violation). Known findings: /verif/known_findings.json (open: C01 wildcard-misplaced, C01 lt-major-only, C12 hyphenless-at-max-length, C13 bound-component-exceeds-max).",
      "not_applicable": [{"property_id": p, "reason": NOT_BUILT} for p in ALL if p not in CHECKS],
    }
    json.dump(m, open("/verif/MANIFEST.json", "w"), indent=1)
main()
